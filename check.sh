#!/bin/bash
# check.sh <property> <quick|thorough>      run one property's check against /repo's working tree
# check.sh replay <replay-file>             rebuild and replay a recorded violation
# Exit: 0 held / 1 VIOLATION / 2 infrastructure problem (never a verdict).
set -u
VERIF_DIR="$(cd "$(dirname "$0")" && pwd)"
export GOFLAGS=-mod=mod GOPROXY=off GOSUMDB=off GOTOOLCHAIN=local
flavour_of() {
  case "$1" in
    C06|C08|C20) echo seam ;;
    *) echo plain ;;
  esac
}
if [ "${1:-}" = replay ]; then
  FILE="$2"
  PROP=$(python3 -c "import json,sys; print(json.load(open(sys.argv[1]))['property'])" "$FILE") || exit 2
  MODE=replay
else
  PROP="$1"; TIER="${2:-quick}"; MODE=drive
fi
FLAV=$(flavour_of "$PROP")
RACE=""
[ "$PROP" = C20 ] && RACE=race
# scratch trees of checks that were killed before their EXIT trap ran (no check lasts 10 hours)
find /var/tmp -maxdepth 1 -name 'verif-C??-??????' -mmin +600 -exec rm -rf {} + 2>/dev/null
SCR=$(mktemp -d /var/tmp/verif-$PROP-XXXXXX) || exit 2
trap 'rm -rf "$SCR"' EXIT
"$VERIF_DIR/build.sh" "$SCR" "$FLAV" $RACE || exit 2
export VERIF_REPO_COPY="$SCR/repo" VERIF_SCRATCH="$SCR"
if [ "$MODE" = replay ]; then
  "$SCR/simworker" replay -file "$FILE"
  exit $?
fi
OUT="${VERIF_OUT:-$VERIF_DIR}"
if [ "$OUT" != "$VERIF_DIR" ]; then mkdir -p "$OUT"; cp "$VERIF_DIR/known_findings.json" "$OUT/"; fi
"$SCR/simworker" drive -prop "$PROP" -tier "$TIER" -verif "$OUT"
exit $?
