#!/bin/bash
# build.sh <scratch-dir> <flavour: plain|seam> [race]
# Copies /repo's working tree into <scratch>/repo, optionally instruments it,
# builds <scratch>/simworker against it.  Exit 2 on any infrastructure problem.
set -u
SCR="$1"; FLAVOUR="${2:-plain}"; RACE="${3:-}"
export GOFLAGS=-mod=mod GOPROXY=off GOSUMDB=off GOTOOLCHAIN=local CGO_ENABLED=${CGO_ENABLED:-1}
REPO_SRC="${VERIF_REPO:-/repo}"
VERIF_DIR="$(cd "$(dirname "$0")" && pwd)"
mkdir -p "$SCR" || exit 2
if [ ! -x "$VERIF_DIR/bin/inst" ] || [ -n "$(find "$VERIF_DIR/inst" -name '*.go' -newer "$VERIF_DIR/bin/inst" 2>/dev/null)" ]; then ( mkdir -p "$VERIF_DIR/bin" && cd "$VERIF_DIR/inst" && go build -trimpath -o "$VERIF_DIR/bin/inst" . ) || { echo "INFRA: cannot build instrumenter" >&2; exit 2; }; fi
rsync -a --delete --exclude .git --exclude web "$REPO_SRC"/ "$SCR/repo/" || exit 2
# the playground's execute path, extracted into a compilable package (before instrumentation, so it is instrumented too)
"$VERIF_DIR/bin/inst" -dir "$SCR/repo" -extract "$REPO_SRC/web/wasm/executor.go" >"$SCR/extract.log" 2>&1 || { cat "$SCR/extract.log" >&2; echo "INFRA: playground extraction failed" >&2; exit 2; }
if [ "$FLAVOUR" = seam ]; then
  "$VERIF_DIR/bin/inst" -dir "$SCR/repo" -seam "$VERIF_DIR/sim/seam" >"$SCR/inst.log" 2>&1 || { cat "$SCR/inst.log" >&2; echo "INFRA: instrumentation failed" >&2; exit 2; }
else
  # plain flavour: the only inserted line is the step counter at the entry of evaluator.Eval
  # (a program that no longer terminates is then a reproducible outcome, not a hung check)
  "$VERIF_DIR/bin/inst" -dir "$SCR/repo" -seam "$VERIF_DIR/sim/seam" -fuelonly >"$SCR/inst.log" 2>&1 || { cat "$SCR/inst.log" >&2; echo "INFRA: instrumentation failed" >&2; exit 2; }
fi
rsync -a --delete --exclude seam "$VERIF_DIR/sim/" "$SCR/sim/" || exit 2
sed "s#@REPO@#$SCR/repo#g" "$VERIF_DIR/sim/go.mod.tmpl" > "$SCR/sim/go.mod"
cat "$SCR/repo/go.sum" "$VERIF_DIR/sim/go.sum.extra" 2>/dev/null | sort -u > "$SCR/sim/go.sum"
TAGS=verif
[ "$FLAVOUR" = seam ] && TAGS="verif,verifseam"
RFLAG=""
[ "$RACE" = race ] && RFLAG="-race"
# coverage of the interpreter's code by a workload (development aid): VERIF_COVER=1 GOCOVERDIR=<dir> ./check.sh ...
[ -n "${VERIF_COVER:-}" ] && RFLAG="$RFLAG -cover -coverpkg=./...,github.com/Syuparn/pangaea/..."
# HTTP front-end: an add-only overlay file exposes the echo router of a server object.
# If the tree's http package has changed shape so that the overlay does not compile,
# build without it (the HTTP workloads then report themselves unavailable).
OVL="$SCR/repo/props/modules/http/builtin/verif_export.go"
if [ -d "$SCR/repo/props/modules/http/builtin" ]; then
  cp "$VERIF_DIR/sim/overlay/http_verif_export.go.txt" "$OVL"
  if ( cd "$SCR/sim" && go build -trimpath $RFLAG -tags "$TAGS,verifhttp" -o "$SCR/simworker" ./cmd/simworker ) >"$SCR/build.log" 2>&1; then
    exit 0
  fi
  echo "build.sh: HTTP overlay did not build; retrying without it" >&2
  rm -f "$OVL"
fi
( cd "$SCR/sim" && go build -trimpath $RFLAG -tags "$TAGS" -o "$SCR/simworker" ./cmd/simworker ) >"$SCR/build.log" 2>&1 || { cat "$SCR/build.log" >&2; echo "INFRA: build failed" >&2; exit 2; }
exit 0
