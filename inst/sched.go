package main

import "go/ast"

// schedFunc inserts scheduler hooks into one function (filled in by sched2.go).
func (in *instr) schedFunc(fd *ast.FuncDecl) { in.schedHooks(fd) }
