// inst: the instrumenter. It rewrites a scratch copy of the repository (never
// /repo itself) so that every source of scheduling nondeterminism goes through
// the verifseam runtime:
//
//	MAPSEAM  every `for k, v := range <map>` iterates verifseam.Entries(site, m)
//	SCHED    `go f()`, unbuffered channel send/receive, sync.(RW)Mutex operations,
//	         accesses to package-level maps and the entry of evaluator.Eval
//
// Edits are spliced into the source text by byte offset (files are not re-printed).
package main

import (
	"encoding/json"
	"flag"
	"fmt"
	"go/ast"
	"go/token"
	"go/types"
	"os"
	"path/filepath"
	"sort"
	"strings"

	"golang.org/x/tools/go/packages"
)

type edit struct {
	start, end int
	text       string
}

type site struct {
	Kind string `json:"kind"`
	Name string `json:"name"`
	File string `json:"file"`
	Line int    `json:"line"`
	Key  string `json:"key_type,omitempty"`
}

const seamPath = "github.com/Syuparn/pangaea/verifseam"

func main() {
	dir := flag.String("dir", "", "scratch copy of the repository")
	seam := flag.String("seam", "", "directory with the verifseam runtime sources")
	sched := flag.Bool("sched", true, "insert scheduler hooks as well")
	fuelOnly := flag.Bool("fuelonly", false, "insert nothing but the step counter at the entry of evaluator.Eval (plain flavour)")
	extract := flag.String("extract", "", "only extract the playground executor from this file into <dir>/verifplay")
	flag.Parse()
	if *extract != "" {
		if err := extractPlayground(*extract, filepath.Join(*dir, "verifplay")); err != nil {
			fatal(err)
		}
		return
	}
	if *dir == "" || *seam == "" {
		fmt.Fprintln(os.Stderr, "usage: inst -dir <scratch repo> -seam <seam src dir>")
		os.Exit(2)
	}
	// 1. copy the runtime package in
	dst := filepath.Join(*dir, "verifseam")
	os.MkdirAll(dst, 0o755)
	ents, err := os.ReadDir(*seam)
	if err != nil {
		fatal(err)
	}
	for _, e := range ents {
		if e.IsDir() || !strings.HasSuffix(e.Name(), ".go") {
			continue
		}
		b, err := os.ReadFile(filepath.Join(*seam, e.Name()))
		if err != nil {
			fatal(err)
		}
		if err := os.WriteFile(filepath.Join(dst, e.Name()), b, 0o644); err != nil {
			fatal(err)
		}
	}
	// 2. load and type-check
	cfg := &packages.Config{
		Mode:  packages.NeedName | packages.NeedFiles | packages.NeedCompiledGoFiles | packages.NeedSyntax | packages.NeedTypes | packages.NeedTypesInfo | packages.NeedImports | packages.NeedDeps,
		Dir:   *dir,
		Tests: false,
		Env:   append(os.Environ(), "GOFLAGS=-mod=mod", "GOPROXY=off", "GOSUMDB=off", "GOTOOLCHAIN=local"),
	}
	pkgs, err := packages.Load(cfg, "./...")
	if err != nil {
		fatal(err)
	}
	var sites []site
	edits := map[string][]edit{}
	needImport := map[string]bool{}
	pkgPos := map[string]int{}
	for _, p := range pkgs {
		if len(p.Errors) > 0 {
			for _, e := range p.Errors {
				fmt.Fprintln(os.Stderr, "load error:", e)
			}
			fatal(fmt.Errorf("package %s does not type-check", p.PkgPath))
		}
		if p.PkgPath == seamPath || strings.Contains(p.PkgPath, "/third_party/") {
			continue
		}
		short := p.PkgPath[strings.LastIndex(p.PkgPath, "/")+1:]
		for i, f := range p.Syntax {
			fname := p.CompiledGoFiles[i]
			if !strings.HasPrefix(fname, *dir) {
				continue
			}
			in := &instr{pkg: p, short: short, fset: p.Fset, file: f, fname: fname, sched: *sched, fuelOnly: *fuelOnly}
			in.run()
			if len(in.edits) > 0 {
				edits[fname] = in.edits
				needImport[fname] = true
				pkgPos[fname] = p.Fset.Position(f.Name.End()).Offset
				sites = append(sites, in.sites...)
			}
		}
	}
	// 3. apply edits
	for fname, es := range edits {
		src, err := os.ReadFile(fname)
		if err != nil {
			fatal(err)
		}
		es = append(es, edit{pkgPos[fname], pkgPos[fname], "; import verifseam \"" + seamPath + "\""})
		sort.SliceStable(es, func(i, j int) bool { return es[i].start > es[j].start })
		for i := 1; i < len(es); i++ {
			if es[i].end > es[i-1].start {
				fatal(fmt.Errorf("%s: overlapping edits at offsets %d and %d", fname, es[i].start, es[i-1].start))
			}
		}
		out := string(src)
		for _, e := range es {
			out = out[:e.start] + e.text + out[e.end:]
		}
		if err := os.WriteFile(fname, []byte(out), 0o644); err != nil {
			fatal(err)
		}
	}
	sort.Slice(sites, func(i, j int) bool { return sites[i].Name < sites[j].Name })
	b, _ := json.MarshalIndent(sites, "", " ")
	os.WriteFile(filepath.Join(*dir, "verifseam_sites.json"), b, 0o644)
	counts := map[string]int{}
	for _, s := range sites {
		counts[s.Kind]++
	}
	fmt.Printf("inst: %d files rewritten, sites: %v\n", len(edits), counts)
}

func fatal(err error) {
	fmt.Fprintln(os.Stderr, "inst:", err)
	os.Exit(2)
}

type instr struct {
	pkg   *packages.Package
	short string
	fset  *token.FileSet
	file  *ast.File
	fname string
	sched bool
	fuelOnly bool
	edits []edit
	sites []site
	fn    string
	count map[string]int
}

func (in *instr) off(p token.Pos) int { return in.fset.Position(p).Offset }

func (in *instr) text(n ast.Node) string {
	src, _ := os.ReadFile(in.fname)
	return string(src[in.off(n.Pos()):in.off(n.End())])
}

func (in *instr) siteName(kind string) string {
	if in.count == nil {
		in.count = map[string]int{}
	}
	key := in.fn + "/" + kind
	n := in.count[key]
	in.count[key]++
	return fmt.Sprintf("%s.%s#%s%d", in.short, in.fn, kind, n)
}

func (in *instr) add(kind, name string, pos token.Pos, key string) {
	p := in.fset.Position(pos)
	rel := p.Filename
	in.sites = append(in.sites, site{Kind: kind, Name: name, File: rel, Line: p.Line, Key: key})
}

func (in *instr) run() {
	for _, d := range in.file.Decls {
		fd, ok := d.(*ast.FuncDecl)
		if !ok || fd.Body == nil {
			continue
		}
		in.fn = fd.Name.Name
		if fd.Recv != nil && len(fd.Recv.List) > 0 {
			t := fd.Recv.List[0].Type
			if s, ok := t.(*ast.StarExpr); ok {
				t = s.X
			}
			if id, ok := t.(*ast.Ident); ok {
				in.fn = id.Name + "." + fd.Name.Name
			}
		}
		in.count = nil
		if in.fuelOnly {
			if in.pkg.PkgPath == "github.com/Syuparn/pangaea/evaluator" && fd.Name.Name == "Eval" && fd.Recv == nil {
				p := in.off(fd.Body.Lbrace) + 1
				in.edits = append(in.edits, edit{p, p, " verifseam.YieldEval();"})
				in.add("yield", "evaluator.Eval", fd.Pos(), "")
			}
			continue
		}
		if in.sched {
			in.schedFunc(fd)
		}
		ast.Inspect(fd.Body, func(n ast.Node) bool {
			switch s := n.(type) {
			case *ast.RangeStmt:
				in.rangeStmt(s)
			}
			return true
		})
	}
}

func isBlank(e ast.Expr) bool {
	id, ok := e.(*ast.Ident)
	return e == nil || (ok && id.Name == "_")
}

func (in *instr) rangeStmt(s *ast.RangeStmt) {
	tv, ok := in.pkg.TypesInfo.Types[s.X]
	if !ok {
		return
	}
	mt, ok := tv.Type.Underlying().(*types.Map)
	if !ok {
		return
	}
	if isBlank(s.Key) && isBlank(s.Value) {
		return // iteration count only: order is unobservable
	}
	name := in.siteName("range")
	in.add("maprange", name, s.Pos(), mt.Key().String())
	// header: from `for` keyword end to the opening brace
	hdrStart := in.off(s.For) + len("for")
	hdrEnd := in.off(s.Body.Lbrace)
	x := in.text(s.X)
	hdr := fmt.Sprintf(" _, verifseamE := range verifseam.Entries(%q, %s) ", name, x)
	in.edits = append(in.edits, edit{hdrStart, hdrEnd, hdr})
	k, v := "_", "_"
	if !isBlank(s.Key) {
		k = in.text(s.Key)
	}
	if s.Value != nil && !isBlank(s.Value) {
		v = in.text(s.Value)
	}
	op := ":="
	if s.Tok == token.ASSIGN {
		op = "="
	}
	var bind string
	switch {
	case k != "_" && v != "_":
		bind = fmt.Sprintf(" %s, %s %s verifseamE.K, verifseamE.V;", k, v, op)
	case k != "_":
		bind = fmt.Sprintf(" %s %s verifseamE.K;", k, op)
	default:
		bind = fmt.Sprintf(" %s %s verifseamE.V;", v, op)
	}
	in.edits = append(in.edits, edit{in.off(s.Body.Lbrace) + 1, in.off(s.Body.Lbrace) + 1, bind})
}
