package main

import (
	"bytes"
	"fmt"
	"go/ast"
	"go/parser"
	"go/printer"
	"go/token"
	"os"
	"path/filepath"
	"strings"
)

// extractPlayground copies the playground's own execute path (web/wasm/executor.go:
// type Executor, NewExecutor, (*Executor).execute, setupEnv) verbatim into a natively
// compilable package `verifplay` of the scratch copy, so that the code that runs is the
// tree's, not a re-implementation.  The file itself imports syscall/js and its module
// pins a published pangaea version, so it can never be compiled as it stands.
// If the shape is not recognised the package is still generated, with Available=false.
func extractPlayground(srcFile, outDir string) error {
	os.MkdirAll(outDir, 0o755)
	stub := "package verifplay\n\nimport (\n\t\"io\"\n\n\t\"github.com/Syuparn/pangaea/object\"\n)\n\n// Available is false: web/wasm/executor.go was not recognised.\nconst Available = false\n\ntype Executor struct{}\n\nfunc NewExecutor() *Executor { return &Executor{} }\n\nfunc (e *Executor) Run(src, in io.Reader, out io.Writer) (object.PanObject, string) { return nil, \"unavailable\" }\n"
	writeStub := func(why string) error {
		fmt.Fprintln(os.Stderr, "inst: playground extraction skipped:", why)
		return os.WriteFile(filepath.Join(outDir, "play.go"), []byte(stub), 0o644)
	}
	b, err := os.ReadFile(srcFile)
	if err != nil {
		return writeStub(err.Error())
	}
	fset := token.NewFileSet()
	f, err := parser.ParseFile(fset, srcFile, b, parser.ParseComments)
	if err != nil {
		return writeStub(err.Error())
	}
	want := map[string]bool{"Executor": false, "NewExecutor": false, "execute": false, "setupEnv": false}
	var out bytes.Buffer
	out.WriteString("// Code extracted verbatim from web/wasm/executor.go by /verif/inst. DO NOT EDIT.\n\npackage verifplay\n\nimport (\n\t\"io\"\n\n\t\"github.com/Syuparn/pangaea/di\"\n\t\"github.com/Syuparn/pangaea/evaluator\"\n\t\"github.com/Syuparn/pangaea/object\"\n\t\"github.com/Syuparn/pangaea/parser\"\n)\n\n// Available is true: the declarations below are the tree's own.\nconst Available = true\n\nvar _ = di.InjectBuiltInProps\nvar _ = evaluator.Eval\n\n")
	for _, d := range f.Decls {
		name := ""
		switch x := d.(type) {
		case *ast.GenDecl:
			if x.Tok == token.TYPE && len(x.Specs) == 1 {
				name = x.Specs[0].(*ast.TypeSpec).Name.Name
			}
		case *ast.FuncDecl:
			name = x.Name.Name
		}
		if _, ok := want[name]; !ok {
			continue
		}
		want[name] = true
		var buf bytes.Buffer
		if err := printer.Fprint(&buf, fset, d); err != nil {
			return writeStub(err.Error())
		}
		out.Write(buf.Bytes())
		out.WriteString("\n\n")
	}
	for k, ok := range want {
		if !ok {
			return writeStub("declaration not found: " + k)
		}
	}
	text := out.String()
	// the pinned published parser took an io.Reader; the tree's takes *parser.Reader
	text = strings.Replace(text, "parser.Parse(src)", "parser.Parse(parser.NewReader(src, \"<playground>\"))", 1)
	text += "// Run exposes the unexported execute to the harness.\nfunc (e *Executor) Run(src, in io.Reader, out io.Writer) (object.PanObject, string) {\n\treturn e.execute(src, in, out)\n}\n"
	return os.WriteFile(filepath.Join(outDir, "play.go"), []byte(text), 0o644)
}
