package main

import (
	"fmt"
	"go/ast"
	"go/token"
	"go/types"
	"strings"
)

func (in *instr) typeOf(e ast.Expr) types.Type {
	if tv, ok := in.pkg.TypesInfo.Types[e]; ok {
		return tv.Type
	}
	return nil
}

func namedIs(t types.Type, pkg, name string) (isPtr bool, ok bool) {
	if t == nil {
		return false, false
	}
	if p, isP := t.(*types.Pointer); isP {
		t = p.Elem()
		isPtr = true
	}
	n, isN := t.(*types.Named)
	if !isN || n.Obj() == nil || n.Obj().Pkg() == nil {
		return false, false
	}
	return isPtr, n.Obj().Pkg().Path() == pkg && n.Obj().Name() == name
}

// pkgLevelMap reports whether id denotes a package-level variable of map type in this module.
func (in *instr) pkgLevelMap(id *ast.Ident) (string, bool) {
	obj := in.pkg.TypesInfo.Uses[id]
	v, ok := obj.(*types.Var)
	if !ok || v.Pkg() == nil || v.Parent() != v.Pkg().Scope() {
		return "", false
	}
	if _, isMap := v.Type().Underlying().(*types.Map); !isMap {
		return "", false
	}
	if !strings.HasPrefix(v.Pkg().Path(), "github.com/Syuparn/pangaea") {
		return "", false
	}
	short := v.Pkg().Path()[strings.LastIndex(v.Pkg().Path(), "/")+1:]
	return short + "." + v.Name(), true
}

func (in *instr) schedHooks(fd *ast.FuncDecl) {
	// entry of evaluator.Eval: scheduling point and fuel
	if in.pkg.PkgPath == "github.com/Syuparn/pangaea/evaluator" && fd.Name.Name == "Eval" && fd.Recv == nil {
		p := in.off(fd.Body.Lbrace) + 1
		in.edits = append(in.edits, edit{p, p, " verifseam.YieldEval();"})
		in.add("yield", "evaluator.Eval", fd.Pos(), "")
	}
	// symbol-table operations: wrap for history recording
	if in.pkg.PkgPath == "github.com/Syuparn/pangaea/object" && fd.Recv == nil {
		in.wrapSymtab(fd)
	}

	// statements directly inside blocks, for Access hooks
	var visitBlock func(list []ast.Stmt)
	accessDone := map[ast.Stmt]bool{}
	hookStmt := func(s ast.Stmt) {
		if accessDone[s] {
			return
		}
		// does the statement (excluding nested blocks, handled on their own) touch a package-level map?
		type acc struct {
			name  string
			write bool
		}
		var found []acc
		var walk func(n ast.Node, lhs bool)
		walk = func(n ast.Node, lhs bool) {
			ast.Inspect(n, func(x ast.Node) bool {
				switch y := x.(type) {
				case *ast.BlockStmt:
					return x == n // do not descend into nested blocks
				case *ast.FuncLit:
					return false
				case *ast.AssignStmt:
					for _, l := range y.Lhs {
						if ix, ok := l.(*ast.IndexExpr); ok {
							if id, ok := ix.X.(*ast.Ident); ok {
								if name, ok := in.pkgLevelMap(id); ok {
									found = append(found, acc{name, true})
								}
							}
						}
					}
				case *ast.CallExpr:
					if f, ok := y.Fun.(*ast.Ident); ok && f.Name == "delete" && len(y.Args) > 0 {
						if id, ok := y.Args[0].(*ast.Ident); ok {
							if name, ok := in.pkgLevelMap(id); ok {
								found = append(found, acc{name, true})
							}
						}
					}
				case *ast.Ident:
					if name, ok := in.pkgLevelMap(y); ok {
						found = append(found, acc{name, false})
					}
				}
				return true
			})
		}
		walk(s, false)
		if len(found) == 0 {
			return
		}
		accessDone[s] = true
		seen := map[string]bool{}
		text := ""
		for _, a := range found {
			// a write subsumes the read recorded for the same identifier
			w := false
			for _, b := range found {
				if b.name == a.name && b.write {
					w = true
				}
			}
			if seen[a.name] {
				continue
			}
			seen[a.name] = true
			site := in.siteName("access")
			in.add("access", site, s.Pos(), a.name)
			text += fmt.Sprintf("verifseam.Access(%q, %q, %v); ", a.name, site, w)
		}
		p := in.off(s.Pos())
		in.edits = append(in.edits, edit{p, p, text})
	}
	visitBlock = func(list []ast.Stmt) {
		for _, s := range list {
			switch s.(type) {
			case *ast.BlockStmt, *ast.IfStmt, *ast.ForStmt, *ast.RangeStmt, *ast.SwitchStmt, *ast.TypeSwitchStmt, *ast.SelectStmt, *ast.LabeledStmt:
				// compound statements: hook their init/cond part as a whole only if it has no body of its own touching maps
			}
			switch st := s.(type) {
			case *ast.DeferStmt, *ast.GoStmt:
				_ = st
				continue
			}
			hookStmt(s)
		}
	}
	ast.Inspect(fd.Body, func(n ast.Node) bool {
		switch b := n.(type) {
		case *ast.BlockStmt:
			visitBlock(b.List)
		case *ast.CaseClause:
			visitBlock(b.Body)
		case *ast.CommClause:
			visitBlock(b.Body)
		}
		return true
	})

	ast.Inspect(fd.Body, func(n ast.Node) bool {
		switch s := n.(type) {
		case *ast.GoStmt:
			site := in.siteName("go")
			in.add("go", site, s.Pos(), "")
			call := s.Call
			start, end := in.off(s.Pos()), in.off(s.End())
			if fl, ok := call.Fun.(*ast.FuncLit); ok && len(call.Args) == 0 {
				// go func() {...}()  ->  verifseam.Go(site, func() {...})
				in.edits = append(in.edits, edit{start, in.off(fl.Pos()), fmt.Sprintf("verifseam.Go(%q, ", site)})
				in.edits = append(in.edits, edit{in.off(fl.End()), end, ")"})
			} else {
				in.edits = append(in.edits, edit{start, in.off(call.Pos()), fmt.Sprintf("verifseam.Go(%q, func() { ", site)})
				in.edits = append(in.edits, edit{end, end, " })"})
			}
		case *ast.SendStmt:
			if _, ok := in.typeOf(s.Chan).Underlying().(*types.Chan); ok {
				site := in.siteName("send")
				in.add("send", site, s.Pos(), "")
				in.edits = append(in.edits, edit{in.off(s.Pos()), in.off(s.Chan.Pos()), fmt.Sprintf("verifseam.Send(%q, ", site)})
				in.edits = append(in.edits, edit{in.off(s.Chan.End()), in.off(s.Value.Pos()), ", "})
				in.edits = append(in.edits, edit{in.off(s.End()), in.off(s.End()), ")"})
			}
		case *ast.UnaryExpr:
			if s.Op == token.ARROW {
				site := in.siteName("recv")
				in.add("recv", site, s.Pos(), "")
				in.edits = append(in.edits, edit{in.off(s.Pos()), in.off(s.X.Pos()), fmt.Sprintf("verifseam.Recv(%q, ", site)})
				in.edits = append(in.edits, edit{in.off(s.End()), in.off(s.End()), ")"})
			}
		case *ast.CallExpr:
			sel, ok := s.Fun.(*ast.SelectorExpr)
			if !ok || len(s.Args) != 0 {
				return true
			}
			t := in.typeOf(sel.X)
			var fn string
			isPtr := false
			if p, ok := namedIs(t, "sync", "RWMutex"); ok {
				isPtr = p
				switch sel.Sel.Name {
				case "Lock":
					fn = "RWLock"
				case "Unlock":
					fn = "RWUnlock"
				case "RLock":
					fn = "RWRLock"
				case "RUnlock":
					fn = "RWRUnlock"
				}
			} else if p, ok := namedIs(t, "sync", "Mutex"); ok {
				isPtr = p
				switch sel.Sel.Name {
				case "Lock":
					fn = "MuLock"
				case "Unlock":
					fn = "MuUnlock"
				}
			}
			if fn == "" {
				return true
			}
			in.add("lock", in.siteName("lock"), s.Pos(), fn)
			amp := "&"
			if isPtr {
				amp = ""
			}
			in.edits = append(in.edits, edit{in.off(s.Pos()), in.off(sel.X.Pos()), "verifseam." + fn + "(" + amp})
			in.edits = append(in.edits, edit{in.off(sel.X.End()), in.off(s.End()), ")"})
		case *ast.SelectStmt:
			in.add("select-unmodelled", in.siteName("select"), s.Pos(), "")
		}
		return true
	})
}

// wrapSymtab renames object.GetSymHash / object.SymHash2Str and adds recording wrappers.
func (in *instr) wrapSymtab(fd *ast.FuncDecl) {
	switch fd.Name.Name {
	case "GetSymHash":
		if fd.Type.Params.NumFields() != 1 || fd.Type.Results.NumFields() != 1 {
			return
		}
		in.edits = append(in.edits, edit{in.off(fd.Name.Pos()), in.off(fd.Name.End()), "verifseamOrigGetSymHash"})
		in.edits = append(in.edits, edit{in.off(fd.End()), in.off(fd.End()), `

func GetSymHash(str string) SymHash {
	verifseamI := verifseam.OpBegin(0, str, 0)
	h := verifseamOrigGetSymHash(str)
	verifseam.OpEnd(verifseamI, str, uint64(h), true)
	return h
}
`})
		in.add("wrap", "object.GetSymHash", fd.Pos(), "")
	case "SymHash2Str":
		if fd.Type.Params.NumFields() != 1 || fd.Type.Results.NumFields() != 2 {
			return
		}
		in.edits = append(in.edits, edit{in.off(fd.Name.Pos()), in.off(fd.Name.End()), "verifseamOrigSymHash2Str"})
		in.edits = append(in.edits, edit{in.off(fd.End()), in.off(fd.End()), `

func SymHash2Str(h SymHash) (PanObject, bool) {
	verifseamI := verifseam.OpBegin(1, "", uint64(h))
	o, ok := verifseamOrigSymHash2Str(h)
	s := ""
	if ps, isStr := o.(*PanStr); isStr && ps != nil {
		s = ps.Value
	}
	verifseam.OpEnd(verifseamI, s, uint64(h), ok)
	return o, ok
}
`})
		in.add("wrap", "object.SymHash2Str", fd.Pos(), "")
	}
}
