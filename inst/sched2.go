package main

import "go/ast"

func (in *instr) schedHooks(fd *ast.FuncDecl) {}
