#!/usr/bin/env python3
"""Run the repository's pinned test suite (guard off) and compare with /root/.vp/BASELINE.json stable_pass."""
import json, subprocess, sys, os
env = dict(os.environ, GOFLAGS="-mod=mod", GOPROXY="off", GOSUMDB="off", GOTOOLCHAIN="local")
repo = sys.argv[1] if len(sys.argv) > 1 else "/repo"
p = subprocess.run(["go", "test", "-json", "-vet=off", "-count=1", "-timeout", "25m", "./..."], cwd=repo, env=env, capture_output=True, text=True)
passed = set()
failed = set()
for line in p.stdout.splitlines():
    try:
        d = json.loads(line)
    except Exception:
        continue
    if d.get("Test") and d.get("Action") in ("pass", "fail"):
        name = d["Package"] + "::" + d["Test"]
        (passed if d["Action"] == "pass" else failed).add(name)
base = json.load(open("/root/.vp/BASELINE.json"))
want = set(base["stable_pass"])
missing = sorted(want - passed)
print(f"passed={len(passed)} failed={len(failed)} stable_pass={len(want)} missing={len(missing)}")
for m in missing[:40]:
    print("MISSING", m)
sys.exit(1 if missing else 0)
