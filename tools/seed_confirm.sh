#!/bin/bash
# tools/seed_confirm.sh <seed-name> <kind: pangaea|gotest:<pkgdir>|sh:<script>> 
# Confirms a seeded change's demonstration ourselves: runs it on a scratch copy of /repo WITH and WITHOUT patch.diff.
set -u
NAME="$1"; KIND="$2"
VERIF_DIR="$(cd "$(dirname "$0")/.." && pwd)"
SD="$VERIF_DIR/seeded/$NAME"
export GOFLAGS=-mod=mod GOPROXY=off GOSUMDB=off GOTOOLCHAIN=local
M=$(mktemp -d /var/tmp/verif-conf-XXXXXX); trap 'rm -rf "$M"' EXIT
run_demo() { # $1 = repo dir
  case "$KIND" in
    pangaea) (cd "$1" && go build -o "$M/pg" . && "$M/pg" "$SD/demo.pangaea" 2>&1 | tail -3) ;;
    gotest:*) d="${KIND#gotest:}"; cp "$SD/demo_test.go" "$1/$d/zz_seed_demo_test.go"; (cd "$1" && go test -race -vet=off -count=1 -run 'TestC[0-9]+' "./$d/" 2>&1 | grep -E "^(ok|FAIL|---|PASS|WARNING: DATA RACE)" | sort | uniq -c | head -5); rm -f "$1/$d/zz_seed_demo_test.go" ;;
    sh:*) s="${KIND#sh:}"; mkdir -p "$1/_seeded" && cp -r "$SD/." "$1/_seeded/" && (bash "$1/_seeded/$s" 2>&1 | tail -3); rm -rf "$1/_seeded" ;;
  esac
}
rsync -a --exclude .git /repo/ "$M/without/"; rsync -a --exclude .git /repo/ "$M/with/"
(cd "$M/with" && patch -p1 -s < "$SD/patch.diff") || exit 2
W=$(run_demo "$M/with"); WO=$(run_demo "$M/without")
echo "WITH change:    $W"; echo "WITHOUT change: $WO"
python3 - "$SD/meta.json" "$W" "$WO" <<'PY'
import json,sys
p,w,wo=sys.argv[1:4]
m=json.load(open(p)); m["demo_with_change"]=w; m["demo_without_change"]=wo
m["what_we_ran"]="tools/seed_eval.sh (patch applies to /repo copy, go build, pinned suite, our check) and tools/seed_confirm.sh (the demonstration on scratch copies with and without the patch)"
json.dump(m,open(p,'w'),indent=1)
PY
