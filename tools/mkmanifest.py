#!/usr/bin/env python3
"""Regenerates MANIFEST.json from the table below (kept in one place so it stays valid)."""
import json
claimed = {
 "C07": dict(level="fault_enumeration", engine="callee",
   technique="deterministic simulation: simulated callee raising at every dynamic call position of tape-generated programs, judged against a control-flow reference model",
   text="Every dynamic invocation position of each generated program is faulted (complete per program; programs are sampled from a seeded tape). The real interpreter's slot trace, outcome and reachable values are compared with a small reference model of fail-stop propagation, thoughtful-chain absorption and pending defers. Generated constructs include calls with *, ** and repeated/private keywords, all chain contexts (also over iterator literals and on nil receivers), native higher-order props with generated callbacks, try constructs, interpolation of values with their own S, conditions that answer B themselves, pinned keys, comparisons, assignment expressions and errors the interpreter raises itself (unbound name, missing property, division by zero).",
   note="Trusts the reference model in sim/gen/model.go (calibrated against the implementation, leaves open whatever the statement leaves open), and that a built-in returning *PanErr is equivalent to a user function that raises. try/Either delivery is decided under C13.",
   ref="§3 C07"),
 "C15": dict(level="fault_enumeration", engine="callee",
   technique="deterministic simulation: crash-point enumeration (raise injected at every slot of generated bodies with defers) against a defer reference model",
   text="Generated function bodies with plain/guarded defers, return, raise and nested calls are run fault-free and with a raise injected at every dynamic slot index (body, guard, nested call, deferred expression). Exactly-once, reach order and unchanged outcome are checked against the model for every crash point of every generated body. Deferred expressions include nested calls with defers of their own, caught errors as values, bare names and iterator bodies; guards include objects that answer B themselves.",
   note="Trusts the defer reference model; the value of a body ending in a defer statement is left unspecified.",
   ref="§3 C15"),
}
na = {
 "C01": "pure function of (source text, stdin contents): nothing to schedule or fail; only input generation could decide it",
 "C02": "pure function of the token sequence (parser grouping); no schedule, fault or history",
 "C03": "deterministic program semantics needing a full reference evaluator; no nondeterminism, fault or I/O involved",
 "C04": "value semantics of 9x3 chain forms is a function of the program; its fault facet (callee raises at element k) is exercised under C07",
 "C05": "objects are immutable, so a history of bear/bro is just a value; lookups are pure functions",
 "C09": "pure literal/unpacking key rules; the hash-layout facet is decided under C08",
 "C10": "pure function of two int64 operands",
 "C11": "pure function of (sequence, start, stop, step)",
 "C12": "deterministic program semantics; operand-evaluation counts are a trace of a deterministic run, not of a schedule",
 "C17": "pure function of the literal spelling",
 "C18": "pure functions over value pairs and triples",
}
pending = {}
na.update(pending)
import os, sys
extra = json.load(open(os.path.join(os.path.dirname(__file__), "claimed_extra.json"))) if os.path.exists(os.path.join(os.path.dirname(__file__), "claimed_extra.json")) else {}
claimed.update(extra.get("claimed", {}))
for k in extra.get("not_applicable", {}):
    na[k] = extra["not_applicable"][k]
for k in claimed:
    na.pop(k, None)
checks = []
for pid in sorted(claimed):
    c = claimed[pid]
    checks.append({
      "property_id": pid,
      "quick_cmd": f"./check.sh {pid} quick",
      "thorough_cmd": f"./check.sh {pid} thorough",
      "evidence_file": f"/verif/evidence/{pid}.json",
      "replay_cmd_template": "./check.sh replay {path}",
      "engine": c["engine"],
      "level_claimed": {"category": c["level"], "text": c["text"], "design_ref": c["ref"]},
      "level_note": c["note"],
      "technique": c["technique"],
    })
m = {
 "version": 1,
 "setup_cmd": "./setup.sh",
 "hooks": {
   "guard": "verif",
   "enable": "no hooks live in /repo: every check copies /repo's working tree to a scratch directory, instruments that copy (sim/../inst, AST rewrite) where the engine needs seams, and builds the worker with -tags verif[,verifseam]",
   "baseline_off_cmd": "cd /repo && GOFLAGS=-mod=mod GOPROXY=off GOSUMDB=off go test -vet=off -count=1 -timeout 25m ./...",
   "source_commits": [],
   "add_only": True,
 },
 "engines": [
   {"name": "callee", "path": "sim/checks/cf.go, sim/gen, sim/harness", "serves_properties": ["C07", "C13", "C15", "C08"], "kind_free_text": "simulated callee S with a per-invocation fault plan drawn from a replayable choice tape; control-flow reference model as oracle"},
 ],
 "checks": checks,
 "not_applicable": [{"property_id": k, "reason": na[k]} for k in sorted(na)],
 "notes": "All checks rebuild a worker binary from /repo's working tree in a scratch directory under /var/tmp (removed on exit). Exit 2 = infrastructure problem, never a verdict.",
}
m["engines"] += extra.get("engines", [])
json.dump(m, open(os.path.join(os.path.dirname(__file__), "..", "MANIFEST.json"), "w"), indent=1)
print("claimed", sorted(claimed), "na", sorted(na))
