#!/usr/bin/env python3
"""mkmutant.py <name> <file-relative-to-/repo> <old> <new>  -> writes /verif/mutants/<name>.patch (unified diff, -p1).
Several (file, old, new) triples may follow each other."""
import sys, difflib
name = sys.argv[1]
args = sys.argv[2:]
out = []
for i in range(0, len(args), 3):
    f, old, new = args[i:i+3]
    src = open('/repo/' + f).read()
    if src.count(old) < 1:
        sys.exit(f"pattern not found in {f}: {old!r}")
    dst = src.replace(old, new, 1)
    out += list(difflib.unified_diff(src.splitlines(True), dst.splitlines(True), 'a/' + f, 'b/' + f))
open(f'/verif/mutants/{name}.patch', 'w').write(''.join(out))
print(''.join(out))
