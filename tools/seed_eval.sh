#!/bin/bash
# tools/seed_eval.sh <property> <worktree> <seed-name> [check-tier]
# Takes a sub-agent's change from <worktree>/_seeded, confirms it in a scratch copy of /repo
# (applies, compiles, pinned suite passes), runs the property's check against it and files it
# under /verif/seeded/<seed-name>/.
set -u
PROP="$1"; WT="$2"; NAME="$3"; TIER="${4:-quick}"
VERIF_DIR="$(cd "$(dirname "$0")/.." && pwd)"
DST="$VERIF_DIR/seeded/$NAME"
mkdir -p "$DST"
git -C "$WT" diff -- . ':(exclude)_seeded' > "$DST/patch.diff"
cp -r "$WT/_seeded/." "$DST/" 2>/dev/null
git -C "$WT" diff -- . ':(exclude)_seeded' > "$DST/patch.diff"
M=$(mktemp -d /var/tmp/verif-seed-XXXXXX)
trap 'rm -rf "$M"' EXIT
rsync -a --exclude .git --exclude _seeded /repo/ "$M/repo/"
(cd "$M/repo" && patch -p1 -s < "$DST/patch.diff") || { echo "SEED: patch does not apply to /repo"; exit 2; }
(cd "$M/repo" && GOFLAGS=-mod=mod GOPROXY=off GOSUMDB=off go build ./...) || { echo "SEED: does not compile"; exit 2; }
SUITE=$("$VERIF_DIR/tools/baseline.py" "$M/repo" | head -3)
echo "suite: $SUITE"
VERIF_REPO="$M/repo" VERIF_OUT="$M/out" "$VERIF_DIR/check.sh" "$PROP" "$TIER" > "$M/log" 2>&1
rc=$?
grep -E "^(VIOLATION|KNOWN-FINDING|violation signature|INFRA|done|additional)" "$M/log" | cut -c1-200 | head -8
SIGS=$(grep -E "^violation signature" "$M/log" | cut -c1-200 | head -5 | python3 -c "import sys,json; print(json.dumps([l.strip() for l in sys.stdin]))")
python3 - "$DST" "$PROP" "$TIER" "$rc" "$SUITE" "$SIGS" <<'PY'
import json,sys,os
dst,prop,tier,rc,suite,sigs=sys.argv[1:7]
meta={"property":prop,"check_run":f"./check.sh {prop} {tier} against a scratch copy of /repo with patch.diff applied (tools/seed_eval.sh)",
      "check_exit":int(rc),"detected":int(rc)==1,"violation_signatures":json.loads(sigs),"pinned_suite_with_change":suite,
      "needs_to_manifest":open(os.path.join(dst,'meta.txt')).read()[:1500] if os.path.exists(os.path.join(dst,'meta.txt')) else ""}
json.dump(meta,open(os.path.join(dst,'meta.json'),'w'),indent=1)
PY
echo "SEED $NAME on $PROP/$TIER => exit $rc"
