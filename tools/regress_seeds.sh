#!/bin/bash
# tools/regress_seeds.sh [name-filter]  - re-runs every kept seeded change (seeded/*/patch.diff) and every
# reverted fix against the current machinery (quick tier) and prints one line per change.
# Development aid; not registered in MANIFEST.json.
set -u
VERIF_DIR="$(cd "$(dirname "$0")/.." && pwd)"
FILTER="${1:-}"
for d in "$VERIF_DIR"/seeded/*/; do
  n=$(basename "$d")
  case "$n" in *"$FILTER"*) ;; *) continue ;; esac
  prop=$(python3 -c "import json,sys; print(json.load(open(sys.argv[1]))['property'])" "$d/meta.json" 2>/dev/null) || continue
  exp=$(python3 -c "import json,sys; print(json.load(open(sys.argv[1])).get('detected'))" "$d/meta.json")
  out=$(timeout 2400 "$VERIF_DIR/tools/mutant.sh" "$d/patch.diff" "$prop" quick 2>&1 | tail -1)
  echo "SEED $n expected_detected=$exp :: $out"
done
python3 - "$VERIF_DIR/known_findings.json" <<'PY' | while read -r prop commit; do
import json,sys
for f in json.load(open(sys.argv[1]))['findings']:
    if f.get('status')=='fixed': print(f['property'], f['commit'])
PY
  out=$(timeout 2400 "$VERIF_DIR/tools/mutant.sh" "-R:$commit" "$prop" quick 2>&1 | tail -1)
  echo "REVERT $commit ($prop) :: $out"
done
