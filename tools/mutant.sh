#!/bin/bash
# tools/mutant.sh <patch-file|-R:commit> <property> [tier]
# Applies a deliberate property-breaking change to a scratch copy of /repo (never to /repo itself),
# runs the property's check against it and prints the verdict. Evidence/replays go to a scratch dir.
set -u
PATCH="$1"; PROP="$2"; TIER="${3:-quick}"
case "$PATCH" in -R:*) ;; *) PATCH="$(realpath "$PATCH")" ;; esac
VERIF_DIR="$(cd "$(dirname "$0")/.." && pwd)"
M=$(mktemp -d /var/tmp/verif-mut-XXXXXX)
trap 'rm -rf "$M"' EXIT
rsync -a --exclude .git /repo/ "$M/repo/"
case "$PATCH" in
  -R:*) git -C /repo show "${PATCH#-R:}" | (cd "$M/repo" && patch -R -p1 -s) || { echo "MUTANT: patch failed"; exit 2; } ;;
  *) (cd "$M/repo" && patch -p1 -s < "$PATCH") || { echo "MUTANT: patch failed"; exit 2; } ;;
esac
( cd "$M/repo" && GOFLAGS=-mod=mod GOPROXY=off GOSUMDB=off go build ./... ) || { echo "MUTANT: does not compile"; exit 2; }
VERIF_REPO="$M/repo" VERIF_OUT="$M/out" "$VERIF_DIR/check.sh" "$PROP" "$TIER" > "$M/log" 2>&1
rc=$?
grep -E "^(VIOLATION|KNOWN-FINDING|violation signature|INFRA|done|additional)" "$M/log" | cut -c1-220 | head -12
echo "MUTANT $(basename -- "$PATCH") on $PROP/$TIER => exit $rc"
exit $rc
