#!/bin/bash
# tools/mkwave.sh <N>  - prepares a wave of seeding tasks: one detached worktree of /repo per claimed
# property under /tmp/w<N>-<prop> and one self-contained prompt /tmp/w<N>-prompt-<prop>.txt (property text
# from properties.jsonl + common instructions + the ideas already used, by name). Nothing of /verif's
# machinery is given to the sub-agents.
set -u
N="$1"
VERIF_DIR="$(cd "$(dirname "$0")/.." && pwd)"
for P in C06 C07 C08 C13 C14 C15 C16 C19 C20; do
  WT=/tmp/w$N-$P
  git -C /repo worktree add --detach "$WT" HEAD >/dev/null 2>&1 || { echo "worktree $WT failed"; continue; }
  python3 - "$VERIF_DIR" "$P" "$N" "$WT" > /tmp/w$N-prompt-$P.txt <<'PY'
import json,sys,os
verif,pid,n,wt=sys.argv[1:5]
prop=None
for l in open(os.path.join(verif,'properties.jsonl')):
    p=json.loads(l)
    if p.get('id',p.get('property_id'))==pid: prop=p
q0=prop.get('quantifier',prop.get('quantified_over',''))
title=prop.get('title',''); st=prop.get('statement',''); q=q0.get('text',str(q0)) if isinstance(q0,dict) else q0
avoid=sorted(d[len(pid)+1:].replace('-',' ') for d in os.listdir(os.path.join(verif,'seeded')) if d.startswith(pid+'-'))
extra={
 'C20':"The property is about evaluations running AT THE SAME TIME in separate scopes of one interpreter (start-up loading of built-in sources; HTTP handlers running concurrently with each other and the main script). Demonstrate with the Go race detector: _seeded/demo_test.go (a test for package di or evaluator named TestC20...) plus run_demo.sh that copies it in, runs `go test -race -vet=off -count=1 -run TestC20 ./<pkg>/`, removes the copy and prints PASS/FAIL as its last line. The ordinary suites (without and with -race) must stay green.",
 'C16':"Demonstrate with a Go test in package parser (demo_test.go named TestC16..., comparing parser results / Program.String() between two layouts, token lengths or reader chunkings) and/or a demo.pangaea; give run_demo.sh that runs it and prints PASS/FAIL last.",
 'C19':"Demonstrate by running the SAME program (a) after some other program in the same process (two files in one `pangaea test <dir>` run, or two executions through runscript/ the playground executor in one Go test) and (b) alone in a newly started process, and comparing output / error report / exit code; run_demo.sh prints `RESULT: PASS` or `RESULT: FAIL` last.",
 'C08':"Either an evaluation-order / exactly-once break (show it with printing side effects or iterators advancing) or a run-to-run difference (same program, same input, different output between processes).",
}.get(pid,'')
print(f"""You are testing how well a verification effort detects regressions. Your job: seed ONE realistic defect.

YOUR ID: w{n}-{pid}      YOUR WORKTREE: {wt}   (binary name: /tmp/pg-w{n}-{pid})

PROPERTY {pid}: {title}

{st}

Quantified over: {q}

{open('/tmp/w-common.txt').read()}
{('PROPERTY-SPECIFIC NOTES: '+extra) if extra else ''}

AVOID (already used in earlier rounds; find something different in kind, not a variation):
""" + "\n".join("- "+a for a in avoid) + """
- (also already known and repaired in this tree, do not re-introduce: range bounds storing a raised error; `=@` storing a raised error; a body ending in defer evaluating it twice; embedded-string parts / kwargs / `%{**m}` evaluated in Go-map order; lexer refill ignoring short reads; FileNotFoundErr without prototype; SymHash2Str without lock; test runner sharing one scope; shared NotImplemented error accumulating stack traces; Arr#+ appending into the receiver; printing of repeated keyword names or look-alike map keys in Go-map order; Obj#==/Map#== comparing values in Go-map order; an error raised by S during interpolation replaced by ValueErr; known and left alone: the second RunSource of a process sends puts/print to the first writer)

Read the relevant code yourself and find your OWN idea; look in places the list above does not touch (other built-in props, native/*.pangaea sources, the parser actions, di/, runscript/, object/ constructors and copies, error paths). Subtle beats blunt.""")
PY
done
ls /tmp/w$N-prompt-*.txt
