// Package harness hosts a real Pangaea interpreter inside the worker process and
// puts the simulated callee `S` (and the SimWriter on stdout) into evaluation
// scopes through the public Env API.  No code of the repository is stubbed.
package harness

import (
	"bytes"
	"fmt"
	"io"
	"strings"
	"sync"

	"github.com/Syuparn/pangaea/ast"
	"github.com/Syuparn/pangaea/di"
	"github.com/Syuparn/pangaea/evaluator"
	"github.com/Syuparn/pangaea/object"
	"github.com/Syuparn/pangaea/parser"
	seam "github.com/Syuparn/pangaea/verifseam"
)

// ErrKinds the simulated callee can raise (StopIterErr deliberately last: list
// and reduce chains consume it by design, engines opt in explicitly).
var ErrKinds = []string{"Err", "TypeErr", "ValueErr", "ZeroDivisionErr", "NameErr", "NoPropErr", "AssertionErr", "NotImplementedErr", "SyntaxErr", "FileNotFoundErr", "StopIterErr"}

// NewErr builds a PanErr of the named kind through the repository's constructors.
func NewErr(kind, msg string) *object.PanErr {
	switch kind {
	case "Err":
		return object.NewPanErr(msg)
	case "TypeErr":
		return object.NewTypeErr(msg)
	case "ValueErr":
		return object.NewValueErr(msg)
	case "ZeroDivisionErr":
		return object.NewZeroDivisionErr(msg)
	case "NameErr":
		return object.NewNameErr(msg)
	case "NoPropErr":
		return object.NewNoPropErr(msg)
	case "AssertionErr":
		return object.NewAssertionErr(msg)
	case "NotImplementedErr":
		return object.NewNotImplementedErr(msg)
	case "SyntaxErr":
		return object.NewSyntaxErr(msg)
	case "FileNotFoundErr":
		return object.NewFileNotFoundErr(msg)
	case "StopIterErr":
		return object.NewStopIterErr(msg)
	}
	panic("harness: unknown error kind " + kind)
}

// Ret says what a slot invocation answers.
type Ret struct {
	Kind string // "id" (int = slot id), "int", "nil", "true", "false", "str", "arr", "obj", "raise"
	N    int64  // for "int"
	S    string // for "str"; error kind for "raise"
	Msg  string // message for "raise"
}

// Event is one dynamic invocation of the simulated callee.
type Event struct {
	Seq   int      `json:"seq"`
	ID    int      `json:"id"`
	NArgs int      `json:"nargs,omitempty"`
	Kw    []string `json:"kw,omitempty"`
	Out   int      `json:"out,omitempty"` // bytes written to stdout before this event
}

// Callee is the simulated callee of one run.
type Callee struct {
	Defaults map[int]Ret // per slot id (static default chosen by the generator)
	Plan     map[int]Ret // per dynamic invocation index (fault plan); wins over Defaults
	PlanByID map[int]Ret // per slot id (every invocation of that slot); wins over Defaults
	Trace    []Event
	Out      *bytes.Buffer
	Limit    int // max invocations (runaway guard); 0 = 100000
	Overrun  bool
	// OnCall, when set, sees the arguments after the slot id of every invocation
	OnCall func(seq int, args []object.PanObject)
}

func (c *Callee) fn(env *object.Env, kwargs *object.PanObj, args ...object.PanObject) object.PanObject {
	id := -1
	if len(args) > 0 {
		if i, ok := args[0].(*object.PanInt); ok {
			id = int(i.Value)
		}
	}
	seq := len(c.Trace)
	lim := c.Limit
	if lim == 0 {
		lim = 100000
	}
	if seq >= lim {
		c.Overrun = true
		return object.NewPanErr("verif: slot limit")
	}
	ev := Event{Seq: seq, ID: id, NArgs: len(args)}
	if c.Out != nil {
		ev.Out = c.Out.Len()
	}
	c.Trace = append(c.Trace, ev)
	if c.OnCall != nil && len(args) > 1 {
		c.OnCall(seq, args[1:])
	}
	r, ok := c.Plan[seq]
	if !ok {
		r, ok = c.PlanByID[id]
	}
	if !ok {
		r, ok = c.Defaults[id]
		if !ok {
			r = Ret{Kind: "id"}
		}
	}
	return c.value(r, id)
}

func (c *Callee) value(r Ret, id int) object.PanObject {
	switch r.Kind {
	case "id":
		return object.NewPanInt(int64(id))
	case "int":
		return object.NewPanInt(r.N)
	case "nil":
		return object.BuiltInNil
	case "true":
		return object.BuiltInTrue
	case "false":
		return object.BuiltInFalse
	case "str":
		return object.NewPanStr(r.S)
	case "arr":
		return object.NewPanArr(object.NewPanInt(int64(id)), object.NewPanInt(int64(id+1)))
	case "obj":
		m := map[object.SymHash]object.Pair{
			object.GetSymHash("zz"): {Key: object.NewPanStr("zz"), Value: object.NewPanInt(int64(id))},
		}
		return object.PanObjInstancePtr(&m)
	case "raise":
		return NewErr(r.S, r.Msg)
	}
	panic("harness: unknown ret kind " + r.Kind)
}

// Interp is one long-lived interpreter (built-in props injected once).
type Interp struct {
	Global *object.Env
	In     *SwitchReader
	Out    *SwitchWriter
}

// SwitchWriter lets each run capture stdout without re-injecting IO.
type SwitchWriter struct {
	mu sync.Mutex
	W  io.Writer
}

func (s *SwitchWriter) Write(p []byte) (int, error) {
	s.mu.Lock()
	w := s.W
	s.mu.Unlock()
	if w == nil {
		return len(p), nil
	}
	return w.Write(p)
}

// SwitchReader is the stdin seam.
type SwitchReader struct{ R io.Reader }

func (s *SwitchReader) Read(p []byte) (int, error) {
	if s.R == nil {
		return 0, io.EOF
	}
	return s.R.Read(p)
}

// NewInterp performs the same steps as runscript.setup.
func NewInterp() *Interp {
	it := &Interp{In: &SwitchReader{}, Out: &SwitchWriter{}}
	env := object.NewEnvWithConsts()
	env.InjectIO(it.In, it.Out)
	di.InjectBuiltInProps(env)
	env.InjectFrom(object.BuiltInKernelObj)
	it.Global = env
	return it
}

// Parse parses source text with the real parser (panics are reported as errors).
func Parse(src string) (prog *ast.Program, err error) {
	defer func() {
		if r := recover(); r != nil {
			err = fmt.Errorf("host panic in parser: %v", r)
		}
	}()
	return parser.Parse(parser.NewReader(strings.NewReader(src), "<sim>"))
}

// DefaultFuel bounds one evaluation (entries of evaluator.Eval) unless the caller has set
// its own budget. The generated workloads need a few thousand.
const DefaultFuel = 3000000

// Result of one evaluation.
type Result struct {
	Obj      object.PanObject
	Err      *object.PanErr // non-nil iff Obj is a *PanErr
	Panic    string         // host panic, if any
	Stdout   string
	Trace    []Event
	Overrun  bool
	Scope    *object.Env
	TypeName string
}

// Run evaluates an already parsed program in a fresh scope enclosed in the
// interpreter's global scope, with the simulated callee bound to `S`.
func (it *Interp) Run(prog *ast.Program, c *Callee) (res Result) {
	env := object.NewEnclosedEnv(it.Global)
	return it.RunIn(prog, c, env)
}

// RunIn is Run in a caller-supplied scope.
func (it *Interp) RunIn(prog ast.Node, c *Callee, env *object.Env) (res Result) {
	var out bytes.Buffer
	if c != nil {
		c.Out = &out
		c.Trace = c.Trace[:0]
		c.Overrun = false
		env.Set(object.GetSymHash("S"), &object.PanBuiltIn{Fn: c.fn})
	}
	it.Out.mu.Lock()
	it.Out.W = &out
	it.Out.mu.Unlock()
	res.Scope = env
	if !seam.FuelOn() && !seam.Active() {
		// bounded liveness: an evaluation that needs more than DefaultFuel entries of
		// evaluator.Eval is cut off (reported as the host panic "fuel exhausted")
		seam.SetFuel(DefaultFuel)
		defer seam.SetFuel(0)
	}
	defer func() {
		if r := recover(); r != nil {
			res.Panic = fmt.Sprint(r)
		}
		res.Stdout = out.String()
		if c != nil {
			res.Trace = append([]Event(nil), c.Trace...)
			res.Overrun = c.Overrun
		}
		it.Out.mu.Lock()
		it.Out.W = nil
		it.Out.mu.Unlock()
	}()
	o := evaluator.Eval(prog, env)
	res.Obj = o
	if o != nil {
		res.TypeName = string(o.Type())
		if e, ok := o.(*object.PanErr); ok {
			res.Err = e
		}
	}
	return
}

// Bind puts the callee into a scope as `S` (no interpreter state is touched).
func (c *Callee) Bind(env *object.Env) {
	env.Set(object.GetSymHash("S"), &object.PanBuiltIn{Fn: c.fn})
}

// TraceIDs renders a trace as slot ids.
func TraceIDs(t []Event) []int {
	ids := make([]int, len(t))
	for i, e := range t {
		ids[i] = e.ID
	}
	return ids
}
