// simworker: the worker/driver binary, built per check run against the scratch
// copy of /repo.  Subcommands: probe, drive, work, replay.
package main

import (
	"fmt"
	"os"

	"verifsim/checks"
)

func main() {
	if len(os.Args) < 2 {
		fmt.Fprintln(os.Stderr, "usage: simworker probe|drive|work|replay ...")
		os.Exit(2)
	}
	os.Exit(checks.Main(os.Args[1], os.Args[2:]))
}
