// Package gen holds the generator-side AST of simulated Pangaea programs, its
// printer, the tape-driven generator and the control-flow reference model.
package gen

import (
	"fmt"
	"strings"
)

// Node kinds.
const (
	KSlot    = "slot"   // S(id)
	KInt     = "int"    // integer literal
	KNil     = "nil"    //
	KBool    = "bool"   // true / false
	KStr     = "str"    // plain string literal
	KArr     = "arr"    // [e, *e]
	KObj     = "obj"    // {a: e, **e}
	KMap     = "map"    // %{k: v, **e}
	KRange   = "range"  // (a:b:c)
	KInfix   = "infix"  // (l op r)
	KPrefix  = "prefix" // (op r)
	KIndex   = "index"  // l[i]
	KAndOr   = "andor"  // (l && r)
	KIf      = "if"     // (t if c else e)
	KEmb     = "emb"    // "..#{e}.."
	KVar     = "var"    // name
	KFunc    = "func"   // {|a, k: d| body}  / m{|a| body}
	KCall    = "call"   // f(args) where A is a var or a func literal
	KPropC   = "propcall"
	KLitC    = "litcall"
	KVarC    = "varcall"
	KAssign  = "assign" // name := e       (statement level)
	KExprS   = "exprstmt"
	KDefer   = "defer"
	KReturn  = "return"
	KRaise   = "raise"
	KErrNew  = "errnew"  // XErr.new("msg") as an expression (raises at construction)
	KNat     = "nat"     // an expression the interpreter itself fails on: Names[0] = source, Str = kind, Msg = message
	KIter    = "iter"    // <{|i| pre; yield i if i < Int; post; recur(i + 1)}>.new(0)   (L = pre, Post = post statements)
	KNative  = "native"  // recv.<Str: map|select|exclude|all?|any?|reduce>(callback B [, init: C]); Bool = trailing-block form
	KAssignE = "assigne" // (Str := A) as an expression
	KPin     = "pin"     // ^Str as the key of an object/map pair: the value of variable Str is the key
	KTry     = "try"     // recv.try.{|x| body}.<accessor Str: val | or | err?>  (C = default of or)
	KProgram = "program"
)

// Chain describes a chain context.
type Chain struct {
	Main byte // '.', '@', '$'
	Add  byte // 0, '&', '=', '~'
	Arg  *N
}

func (c Chain) String() string {
	s := ""
	if c.Add != 0 {
		s += string(c.Add)
	}
	s += string(c.Main)
	return s
}

// N is one generator-side AST node.
type N struct {
	K       string
	ID      int    // slot id
	Ret     string // slot default return: "id","true","false","nil","arr","obj"
	Role    string // slot role label: "<construct>/<position>"
	Int     int64
	Bool    bool
	Str     string // str literal / operator / name / prop name / err kind
	Msg     string
	A, B, C *N       // operands (meaning per kind)
	L       []*N     // list children: elems, args, stmts, pair values
	Star    []int    // per L entry: 0 plain, 1 '*', 2 '**'
	Keys    []*N     // map keys (per L entry); obj keys use Names
	Names   []string // obj keys / kwarg names / params
	Kw      []*N     // kwarg values (call) / kwparam defaults (func), names in KwNames
	KwNames []string
	Lits    []string // embedded string literal pieces (len(L)+1)
	Method  bool
	Chain   Chain
	Guard   *N
	Post    []*N // iterator literal: statements between the yield and recur
}

// Program is a generated program.
type Program struct {
	Stmts []*N
	Slots map[int]*N // id -> slot node
}

// Source prints the program as Pangaea source.
func (p *Program) Source() string {
	var sb strings.Builder
	for _, s := range p.Stmts {
		printStmt(&sb, s, 0)
		sb.WriteString("\n")
	}
	return sb.String()
}

func isPlainIdent(s string) bool {
	if s == "" {
		return false
	}
	for i, r := range s {
		if !(r == '_' || (r >= 'a' && r <= 'z') || (r >= 'A' && r <= 'Z') || (i > 0 && r >= '0' && r <= '9')) {
			return false
		}
	}
	return true
}

func ind(n int) string { return strings.Repeat("  ", n) }

func printStmt(sb *strings.Builder, n *N, depth int) {
	sb.WriteString(ind(depth))
	switch n.K {
	case KAssign:
		op := " := "
		if n.Msg != "" {
			op = " " + n.Msg + "= " // compound assignment: x += e
		}
		sb.WriteString(n.Str + op)
		printExpr(sb, n.A, depth)
	case KExprS:
		printExpr(sb, n.A, depth)
	case KDefer, KReturn, KRaise:
		kw := map[string]string{KDefer: "defer", KReturn: "return", KRaise: "raise"}[n.K]
		if n.Bool {
			// the keyword directly followed by a parenthesised expression: `defer(e)`
			sb.WriteString(kw + "(")
			printExpr(sb, n.A, depth)
			sb.WriteString(")")
		} else {
			sb.WriteString(kw + " ")
			printExpr(sb, n.A, depth)
		}
		printGuard(sb, n, depth)
	default:
		panic("gen: not a statement: " + n.K)
	}
}

func printGuard(sb *strings.Builder, n *N, depth int) {
	if n.Guard != nil {
		sb.WriteString(" if ")
		printExpr(sb, n.Guard, depth)
	}
}

func printBody(sb *strings.Builder, stmts []*N, depth int) {
	if len(stmts) == 1 && stmts[0].K == KExprS {
		sb.WriteString(" ")
		printExpr(sb, stmts[0].A, depth)
		return
	}
	sb.WriteString("\n")
	for _, s := range stmts {
		printStmt(sb, s, depth+1)
		sb.WriteString("\n")
	}
	sb.WriteString(ind(depth))
}

func printArgs(sb *strings.Builder, n *N, depth int) {
	first := true
	sep := func() {
		if !first {
			sb.WriteString(", ")
		}
		first = false
	}
	// kwargs written first when n.Bool (exercise "keyword before positional")
	writeKw := func() {
		for i, k := range n.Kw {
			sep()
			sb.WriteString(n.KwNames[i] + ": ")
			printExpr(sb, k, depth)
		}
	}
	writePos := func(star2 bool) {
		for i, a := range n.L {
			is2 := len(n.Star) > i && n.Star[i] == 2
			if is2 != star2 {
				continue
			}
			sep()
			if len(n.Star) > i && n.Star[i] == 1 {
				sb.WriteString("*")
			} else if is2 {
				sb.WriteString("**")
			}
			printExpr(sb, a, depth)
		}
	}
	if n.Bool {
		writeKw()
		writePos(false)
	} else {
		writePos(false)
		writeKw()
	}
	// `**` items must come last (grammar)
	writePos(true)
}

// printRecv prints a chain receiver; a receiver ending in a bare operator property
// (`[..]$(0)+`) is parenthesised, otherwise `+` and a following `=.` lex as `+=`.
func printRecv(sb *strings.Builder, n *N, depth int) {
	if n.K == KPropC && len(n.L) == 0 && len(n.Kw) == 0 && (n.Str == "+" || n.Str == "-" || n.Str == "*") {
		sb.WriteString("(")
		printExpr(sb, n, depth)
		sb.WriteString(")")
		return
	}
	printExpr(sb, n, depth)
}

func printExpr(sb *strings.Builder, n *N, depth int) {
	switch n.K {
	case KSlot:
		fmt.Fprintf(sb, "S(%d)", n.ID)
	case KInt:
		if n.Int < 0 {
			fmt.Fprintf(sb, "(%d)", n.Int)
		} else {
			fmt.Fprintf(sb, "%d", n.Int)
		}
	case KNil:
		sb.WriteString("nil")
	case KBool:
		if n.Bool {
			sb.WriteString("true")
		} else {
			sb.WriteString("false")
		}
	case KStr:
		fmt.Fprintf(sb, "%q", n.Str)
	case KArr:
		sb.WriteString("[")
		for i, e := range n.L {
			if i > 0 {
				sb.WriteString(", ")
			}
			if len(n.Star) > i && n.Star[i] == 1 {
				sb.WriteString("*")
			}
			printExpr(sb, e, depth)
		}
		sb.WriteString("]")
	case KObj:
		sb.WriteString("{")
		for i, e := range n.L {
			if i > 0 {
				sb.WriteString(", ")
			}
			if len(n.Star) > i && n.Star[i] == 2 {
				sb.WriteString("**")
			} else if len(n.Keys) > i && n.Keys[i] != nil {
				// computed key: "k#{e}"
				printExpr(sb, n.Keys[i], depth)
				sb.WriteString(": ")
			} else {
				sb.WriteString(n.Names[i] + ": ")
			}
			printExpr(sb, e, depth)
		}
		sb.WriteString("}")
	case KMap:
		sb.WriteString("%{")
		for i, e := range n.L {
			if i > 0 {
				sb.WriteString(", ")
			}
			if len(n.Star) > i && n.Star[i] == 2 {
				sb.WriteString("**")
			} else {
				printExpr(sb, n.Keys[i], depth)
				sb.WriteString(": ")
			}
			printExpr(sb, e, depth)
		}
		sb.WriteString("}")
	case KRange:
		sb.WriteString("(")
		if n.A != nil {
			printExpr(sb, n.A, depth)
		}
		sb.WriteString(":")
		if n.B != nil {
			printExpr(sb, n.B, depth)
		}
		if n.C != nil {
			sb.WriteString(":")
			printExpr(sb, n.C, depth)
		}
		sb.WriteString(")")
	case KInfix, KAndOr:
		sb.WriteString("(")
		printExpr(sb, n.A, depth)
		sb.WriteString(" " + n.Str + " ")
		printExpr(sb, n.B, depth)
		sb.WriteString(")")
	case KPrefix:
		// unary operators bind tighter than chains: parenthesise non-atomic operands
		sb.WriteString("(" + n.Str)
		switch n.A.K {
		case KSlot, KInt, KVar, KBool, KInfix, KAndOr, KIf, KPrefix:
			printExpr(sb, n.A, depth)
		default:
			sb.WriteString("(")
			printExpr(sb, n.A, depth)
			sb.WriteString(")")
		}
		sb.WriteString(")")
	case KIndex:
		printExpr(sb, n.A, depth)
		sb.WriteString("[")
		printExpr(sb, n.B, depth)
		sb.WriteString("]")
	case KIf:
		sb.WriteString("(")
		printExpr(sb, n.A, depth)
		sb.WriteString(" if ")
		printExpr(sb, n.B, depth)
		if n.C != nil {
			sb.WriteString(" else ")
			printExpr(sb, n.C, depth)
		}
		sb.WriteString(")")
	case KEmb:
		sb.WriteString(`"`)
		for i, e := range n.L {
			sb.WriteString(n.Lits[i])
			sb.WriteString("#{")
			printExpr(sb, e, depth)
			sb.WriteString("}")
		}
		sb.WriteString(n.Lits[len(n.L)])
		sb.WriteString(`"`)
	case KVar:
		sb.WriteString(n.Str)
	case KErrNew:
		fmt.Fprintf(sb, "%s.new(%q)", n.Str, n.Msg)
	case KNat:
		if isPlainIdent(n.Names[0]) {
			sb.WriteString(n.Names[0]) // a bare name stays bare (argument and operand positions treat names specially)
		} else {
			sb.WriteString("(" + n.Names[0] + ")")
		}
	case KFunc:
		if n.Method {
			sb.WriteString("m")
		}
		sb.WriteString("{|")
		first := true
		for _, p := range n.Names {
			if !first {
				sb.WriteString(", ")
			}
			first = false
			sb.WriteString(p)
		}
		for i, d := range n.Kw {
			if !first {
				sb.WriteString(", ")
			}
			first = false
			sb.WriteString(n.KwNames[i] + ": ")
			printExpr(sb, d, depth)
		}
		sb.WriteString("|")
		printBody(sb, n.L, depth)
		sb.WriteString("}")
	case KCall:
		printExpr(sb, n.A, depth)
		sb.WriteString("(")
		printArgs(sb, n, depth)
		sb.WriteString(")")
	case KPropC:
		if n.A != nil {
			printRecv(sb, n.A, depth)
		}
		sb.WriteString(n.Chain.String())
		if n.Chain.Arg != nil {
			sb.WriteString("(")
			printExpr(sb, n.Chain.Arg, depth)
			sb.WriteString(")")
		}
		sb.WriteString(n.Str)
		if len(n.L) > 0 || len(n.Kw) > 0 {
			sb.WriteString("(")
			printArgs(sb, n, depth)
			sb.WriteString(")")
		}
	case KLitC:
		printRecv(sb, n.A, depth)
		sb.WriteString(n.Chain.String())
		if n.Chain.Arg != nil {
			sb.WriteString("(")
			printExpr(sb, n.Chain.Arg, depth)
			sb.WriteString(")")
		}
		printExpr(sb, n.B, depth)
	case KIter:
		sb.WriteString("<{|i|\n")
		for _, st := range n.L {
			printStmt(sb, st, depth+1)
			sb.WriteString("\n")
		}
		fmt.Fprintf(sb, "%syield i if i < %d\n", ind(depth+1), n.Int)
		for _, st := range n.Post {
			printStmt(sb, st, depth+1)
			sb.WriteString("\n")
		}
		fmt.Fprintf(sb, "%srecur(i + 1)\n%s}>.new(0)", ind(depth+1), ind(depth))
	case KTry:
		printRecv(sb, n.A, depth)
		sb.WriteString(".try.")
		printExpr(sb, n.B, depth)
		sb.WriteString("." + n.Str)
		if n.Str == "or" {
			sb.WriteString("(")
			printExpr(sb, n.C, depth)
			sb.WriteString(")")
		}
	case KPin:
		sb.WriteString("^" + n.Str)
	case KAssignE:
		sb.WriteString("(" + n.Str + " := ")
		printExpr(sb, n.A, depth)
		sb.WriteString(")")
	case KNative:
		printRecv(sb, n.A, depth)
		sb.WriteString("." + n.Str)
		switch {
		case n.Bool && n.C != nil:
			sb.WriteString("(init: ")
			printExpr(sb, n.C, depth)
			sb.WriteString(") ")
			printExpr(sb, n.B, depth)
		case n.Bool:
			sb.WriteString(" ")
			printExpr(sb, n.B, depth)
		default:
			sb.WriteString("(")
			printExpr(sb, n.B, depth)
			if n.C != nil {
				sb.WriteString(", init: ")
				printExpr(sb, n.C, depth)
			}
			sb.WriteString(")")
		}
	case KVarC:
		printRecv(sb, n.A, depth)
		sb.WriteString(n.Chain.String())
		if n.Chain.Arg != nil {
			sb.WriteString("(")
			printExpr(sb, n.Chain.Arg, depth)
			sb.WriteString(")")
		}
		sb.WriteString("^" + n.Str)
		if len(n.L) > 0 || len(n.Kw) > 0 {
			sb.WriteString("(")
			printArgs(sb, n, depth)
			sb.WriteString(")")
		}
	default:
		panic("gen: cannot print " + n.K)
	}
}
