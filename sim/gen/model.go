package gen

import (
	"fmt"
	"sort"
	"strings"
)

// Val is an abstract value of the reference model.
type Val struct {
	T   string // int nil bool str arr obj map func opq
	I   int64
	B   bool
	S   string
	E   []Val    // arr elems / map values
	MK  []Val    // map keys
	K   []string // obj keys (insertion order)
	V   []Val    // obj values
	Fn  *N
	Env *MEnv
	Kwd []Val // evaluated keyword-parameter defaults of a closure
}

var (
	vNil = Val{T: "nil"}
	vOpq = Val{T: "opq"}
)

func vInt(i int64) Val { return Val{T: "int", I: i} }
func vBool(b bool) Val { return Val{T: "bool", B: b} }

// Known reports whether the value contains no opaque part.
func (v Val) Known() bool {
	switch v.T {
	case "opq", "func", "map", "iter":
		return false
	case "arr":
		for _, e := range v.E {
			if !e.Known() {
				return false
			}
		}
	case "obj":
		for _, e := range v.V {
			if !e.Known() {
				return false
			}
		}
	}
	return true
}

// Inspect mirrors PanObject.Inspect for known values.
func (v Val) Inspect() string {
	switch v.T {
	case "int":
		return fmt.Sprint(v.I)
	case "nil":
		return "nil"
	case "bool":
		return fmt.Sprint(v.B)
	case "str":
		return `"` + v.S + `"`
	case "arr":
		parts := make([]string, len(v.E))
		for i, e := range v.E {
			parts[i] = e.Inspect()
		}
		return "[" + strings.Join(parts, ", ") + "]"
	case "obj":
		idx := make([]int, len(v.K))
		for i := range idx {
			idx[i] = i
		}
		sort.Slice(idx, func(a, b int) bool { return v.K[idx[a]] < v.K[idx[b]] })
		parts := make([]string, len(idx))
		for i, j := range idx {
			parts[i] = `"` + v.K[j] + `": ` + v.V[j].Inspect()
		}
		return "{" + strings.Join(parts, ", ") + "}"
	}
	return "<opaque>"
}

// str conversion used by embedded strings (`S` of the built-in types we generate).
func (v Val) toS() (string, bool) {
	switch v.T {
	case "int":
		return fmt.Sprint(v.I), true
	case "str":
		return v.S, true
	case "nil":
		return "nil", true
	case "bool":
		return fmt.Sprint(v.B), true
	}
	return "", false
}

// MEnv is a model scope.
type MEnv struct {
	vars  map[string]Val
	outer *MEnv
}

func newMEnv(outer *MEnv) *MEnv { return &MEnv{vars: map[string]Val{}, outer: outer} }

func (e *MEnv) get(name string) (Val, bool) {
	for s := e; s != nil; s = s.outer {
		if v, ok := s.vars[name]; ok {
			return v, true
		}
	}
	return vOpq, false
}

// PlanEntry says what the k-th dynamic slot invocation does instead of its default.
type PlanEntry struct {
	Raise bool
	Kind  string
	Msg   string
	Nil   bool
}

// MErr is a raised error in the model.
type MErr struct {
	Kind, Msg string
}

// Outcome is the predicted result of a run.
type Outcome struct {
	Trace []int // slot ids in invocation order
	// NoFault[k] is true when invocation k happened while evaluating the receiver,
	// chain argument or arguments of a thoughtful chain (outside its callee): whether
	// the handler "encloses" that position is arguable, so no fault is judged there.
	NoFault []bool
	// Paths[k] is the dynamic chain of syntactic roles (outermost first) under which
	// invocation k happened, e.g. "range/start>arr/elem".
	Paths  []string
	Raised *MErr // nil: program ended with a value
	Val    Val
	// Unsure is set when the model met something it refuses to predict; the run is then not judged.
	Unsure string
	// CaughtAsData is set when a failed try step's error was taken out as a value (`.err`):
	// from then on an error object may legitimately live in variables and results
	CaughtAsData bool
	// RaisePath is the dynamic role path at which the most recent error that does not come
	// from the simulated callee was raised (an unbound name, `XErr.new`, ...)
	RaisePath string
}

// Model interprets a generated program.
type Model struct {
	Plan         map[int]PlanEntry
	trace        []int
	nofault      []bool
	paths        []string
	path         []string
	nfDepth      int
	unsure       string
	caughtAsData bool
	raisePath    string
	dev          Deviations
	steps        int
}

type ctl int

const (
	cNorm ctl = iota
	cRaise
	cReturn
)

type res struct {
	v   Val
	c   ctl
	err *MErr
}

func norm(v Val) res    { return res{v: v} }
func raise(e *MErr) res { return res{c: cRaise, err: e} }

// Run predicts the outcome of p under plan.
// Deviations switch the model to the behaviour of recorded (known, unrepaired) findings, so
// that a run can be recognised as showing exactly such a finding and nothing else.
type Deviations struct {
	VarCallArgsIgnored bool // the argument list of `recv.^f(args)` is not evaluated
}

func Run(p *Program, plan map[int]PlanEntry) Outcome { return RunWith(p, plan, Deviations{}) }

// RunWith is Run under the given deviations.
func RunWith(p *Program, plan map[int]PlanEntry, dev Deviations) Outcome {
	m := &Model{Plan: plan, dev: dev}
	env := newMEnv(nil)
	r := m.body(p.Stmts, env)
	o := Outcome{Trace: m.trace, NoFault: m.nofault, Paths: m.paths, Val: r.v, Unsure: m.unsure, CaughtAsData: m.caughtAsData, RaisePath: m.raisePath}
	if r.c == cRaise {
		o.Raised = r.err
	}
	return o
}

// ev evaluates child n under the given syntactic role.
func (m *Model) ev(role string, n *N, env *MEnv) res {
	m.path = append(m.path, role)
	r := m.eval(n, env)
	m.path = m.path[:len(m.path)-1]
	return r
}

// badExpansion: `*`/`**` applied to a value that cannot be unpacked ends the literal or the
// argument list on the spot with TypeErr (operands written after it are not evaluated).
func (m *Model) badExpansion(op string, v Val) res {
	switch v.T {
	case "int", "nil", "bool":
		s, _ := v.toS()
		m.raisePath = strings.Join(m.path, ">")
		return raise(&MErr{"TypeErr", "cannot use `" + op + "` unpacking for `" + s + "`"})
	}
	return m.giveUp(op + " of a value the model does not print")
}

func (m *Model) giveUp(why string) res {
	if m.unsure == "" {
		m.unsure = why
	}
	return norm(vOpq)
}

// body runs a statement list as one activation: statements, then reached defers.
func (m *Model) body(stmts []*N, env *MEnv) res {
	out := norm(vNil)
	var deferred []*N
loop:
	for _, s := range stmts {
		switch s.K {
		case KAssign:
			r := m.ev("assign/rhs", s.A, env)
			if r.c == cRaise {
				out = r
				break loop
			}
			if s.Msg != "" {
				// compound assignment `x op= e` is `x := x op e`
				cur, ok := env.get(s.Str)
				if !ok || cur.T != "int" || r.v.T != "int" {
					return m.giveUp("compound assignment on unknown")
				}
				switch s.Msg {
				case "+":
					r.v = vInt(cur.I + r.v.I)
				case "-":
					r.v = vInt(cur.I - r.v.I)
				case "*":
					r.v = vInt(cur.I * r.v.I)
				}
			}
			env.vars[s.Str] = r.v
			out = norm(r.v)
		case KExprS:
			r := m.ev("stmt/expr", s.A, env)
			if r.c == cRaise {
				out = r
				break loop
			}
			out = norm(r.v)
		case KDefer:
			ok, r := m.guard(s, env)
			if r.c == cRaise {
				out = r
				break loop
			}
			if ok {
				deferred = append(deferred, s.A)
				// the value of a body that ends with a defer statement is not specified
				out = norm(vOpq)
			} else {
				out = norm(vNil)
			}
		case KReturn:
			ok, r := m.guard(s, env)
			if r.c == cRaise {
				out = r
				break loop
			}
			if !ok {
				out = norm(vNil)
				continue
			}
			r = m.ev("return/value", s.A, env)
			out = r
			if r.c == cNorm {
				out.c = cReturn
			}
			break loop
		case KRaise:
			ok, r := m.guard(s, env)
			if r.c == cRaise {
				out = r
				break loop
			}
			if !ok {
				out = norm(vNil)
				continue
			}
			r = m.ev("raise/value", s.A, env)
			if r.c != cRaise {
				return m.giveUp("raise of a non-error")
			}
			out = r
			break loop
		default:
			return m.giveUp("unknown statement " + s.K)
		}
	}
	if out.c == cReturn {
		out.c = cNorm
	}
	for _, d := range deferred {
		r := m.ev("defer/expr", d, env)
		if r.c == cRaise {
			return r
		}
	}
	return out
}

// truth applies the one truthiness rule: a value is asked for its `B`. For the values the
// generator uses as conditions that is the value itself (booleans) or the object's own method.
func (m *Model) truth(v Val) (bool, res) {
	if v.T == "obj" {
		for j, k := range v.K {
			if k == "B" && v.V[j].T == "func" {
				r := m.callAs("truth/B", v.V[j], []Val{v}, nil)
				if r.c == cRaise {
					return false, r
				}
				if r.v.T != "bool" {
					m.giveUp("B returning a non-boolean")
					return false, norm(vNil)
				}
				return r.v.B, norm(vNil)
			}
		}
	}
	b, ok := truthy(v)
	if !ok {
		m.giveUp("truthiness of " + v.T)
	}
	return b, norm(vNil)
}

func (m *Model) guard(s *N, env *MEnv) (bool, res) {
	if s.Guard == nil {
		return true, norm(vNil)
	}
	r := m.ev(s.K+"/guard", s.Guard, env)
	if r.c == cRaise {
		return false, r
	}
	if r.v.T == "obj" {
		return m.truth(r.v)
	}
	if r.v.T != "bool" {
		m.giveUp("non-boolean guard")
		return false, norm(vNil)
	}
	return r.v.B, norm(vNil)
}

func (m *Model) slot(n *N) res {
	k := len(m.trace)
	m.trace = append(m.trace, n.ID)
	m.nofault = append(m.nofault, m.nfDepth > 0)
	m.paths = append(m.paths, strings.Join(m.path, ">"))
	if pe, ok := m.Plan[k]; ok {
		if pe.Raise {
			return raise(&MErr{pe.Kind, pe.Msg})
		}
		if pe.Nil {
			return norm(vNil)
		}
	}
	switch n.Ret {
	case "", "id":
		return norm(vInt(int64(n.ID)))
	case "true":
		return norm(vBool(true))
	case "false":
		return norm(vBool(false))
	case "nil":
		return norm(vNil)
	case "arr":
		return norm(Val{T: "arr", E: []Val{vInt(int64(n.ID)), vInt(int64(n.ID + 1))}})
	case "obj":
		return norm(Val{T: "obj", K: []string{"zz"}, V: []Val{vInt(int64(n.ID))}})
	}
	return m.giveUp("unknown slot ret " + n.Ret)
}

func truthy(v Val) (bool, bool) {
	switch v.T {
	case "bool":
		return v.B, true
	case "nil":
		return false, true
	case "int":
		return v.I != 0, true
	}
	return false, false
}

func (m *Model) eval(n *N, env *MEnv) res {
	m.steps++
	if m.steps > 200000 {
		return m.giveUp("model step limit")
	}
	switch n.K {
	case KSlot:
		return m.slot(n)
	case KInt:
		return norm(vInt(n.Int))
	case KNil:
		return norm(vNil)
	case KBool:
		return norm(vBool(n.Bool))
	case KStr:
		return norm(Val{T: "str", S: n.Str})
	case KErrNew:
		m.raisePath = strings.Join(m.path, ">")
		return raise(&MErr{n.Str, n.Msg})
	case KNat:
		m.raisePath = strings.Join(m.path, ">")
		return raise(&MErr{n.Str, n.Msg})
	case KVar:
		v, ok := env.get(n.Str)
		if !ok {
			return m.giveUp("unbound variable " + n.Str)
		}
		return norm(v)
	case KArr:
		out := Val{T: "arr"}
		for i, e := range n.L {
			r := m.ev(starRole("arr", n, i), e, env)
			if r.c == cRaise {
				return r
			}
			if len(n.Star) > i && n.Star[i] == 1 {
				if r.v.T != "arr" {
					return m.badExpansion("*", r.v)
				}
				out.E = append(out.E, r.v.E...)
			} else {
				out.E = append(out.E, r.v)
			}
		}
		return norm(out)
	case KObj:
		out := Val{T: "obj"}
		add := func(k string, v Val) {
			for _, x := range out.K {
				if x == k {
					return // first occurrence wins
				}
			}
			out.K = append(out.K, k)
			out.V = append(out.V, v)
		}
		for i, e := range n.L {
			r := m.ev(starRole("obj", n, i), e, env)
			if r.c == cRaise {
				return r
			}
			if len(n.Star) > i && n.Star[i] == 2 {
				if r.v.T != "obj" {
					return m.badExpansion("**", r.v)
				}
				for j, k := range r.v.K {
					add(k, r.v.V[j])
				}
			} else if len(n.Keys) > i && n.Keys[i] != nil {
				// computed key (slots in the key only: generator invariant)
				if HasSlot(e) && HasSlot(n.Keys[i]) {
					return m.giveUp("object pair with slots on both sides")
				}
				k := m.ev("obj/key", n.Keys[i], env)
				if k.c == cRaise {
					return k
				}
				if k.v.T != "str" {
					return m.giveUp("non-string computed key")
				}
				add(k.v.S, r.v)
			} else {
				add(n.Names[i], r.v)
			}
		}
		return norm(out)
	case KMap:
		// a pair has slots on one side only (generator invariant), so the order
		// inside a pair never matters.
		for i, e := range n.L {
			if len(n.Star) > i && n.Star[i] == 2 {
				r := m.ev("map/starstar", e, env)
				if r.c == cRaise {
					return r
				}
				continue
			}
			kHas, vHas := HasSlot(n.Keys[i]), HasSlot(e)
			if kHas && vHas {
				return m.giveUp("map pair with slots on both sides")
			}
			if r := m.ev("map/key", n.Keys[i], env); r.c == cRaise {
				return r
			}
			if r := m.ev("map/value", e, env); r.c == cRaise {
				return r
			}
		}
		return norm(Val{T: "map"})
	case KRange:
		for bi, b := range []*N{n.A, n.B, n.C} {
			if b == nil {
				continue
			}
			if r := m.ev("range/"+[]string{"start", "stop", "step"}[bi], b, env); r.c == cRaise {
				return r
			}
		}
		return norm(vOpq)
	case KInfix:
		l := m.ev("infix/left", n.A, env)
		if l.c == cRaise {
			return l
		}
		r := m.ev("infix/right", n.B, env)
		if r.c == cRaise {
			return r
		}
		if l.v.T != "int" || r.v.T != "int" {
			return m.giveUp("infix on non-int")
		}
		switch n.Str {
		case "+":
			return norm(vInt(l.v.I + r.v.I))
		case "-":
			return norm(vInt(l.v.I - r.v.I))
		case "*":
			return norm(vInt(l.v.I * r.v.I))
		case "<":
			return norm(vBool(l.v.I < r.v.I))
		case "<=":
			return norm(vBool(l.v.I <= r.v.I))
		case ">":
			return norm(vBool(l.v.I > r.v.I))
		case ">=":
			return norm(vBool(l.v.I >= r.v.I))
		case "==":
			return norm(vBool(l.v.I == r.v.I))
		case "!=":
			return norm(vBool(l.v.I != r.v.I))
		case "<=>":
			switch {
			case l.v.I < r.v.I:
				return norm(vInt(-1))
			case l.v.I > r.v.I:
				return norm(vInt(1))
			}
			return norm(vInt(0))
		}
		return m.giveUp("unknown infix " + n.Str)
	case KPrefix:
		r := m.ev("prefix/operand", n.A, env)
		if r.c == cRaise {
			return r
		}
		switch n.Str {
		case "-":
			if r.v.T != "int" {
				return m.giveUp("- on non-int")
			}
			return norm(vInt(-r.v.I))
		case "!":
			b, ok := truthy(r.v)
			if !ok {
				return m.giveUp("! on unknown")
			}
			return norm(vBool(!b))
		}
		return m.giveUp("unknown prefix")
	case KIndex:
		l := m.ev("index/recv", n.A, env)
		if l.c == cRaise {
			return l
		}
		i := m.ev("index/index", n.B, env)
		if i.c == cRaise {
			return i
		}
		if l.v.T != "arr" || i.v.T != "int" {
			return m.giveUp("index on unknown")
		}
		idx := i.v.I
		if idx < 0 {
			idx += int64(len(l.v.E))
		}
		if idx < 0 || idx >= int64(len(l.v.E)) {
			return norm(vNil)
		}
		return norm(l.v.E[idx])
	case KAndOr:
		l := m.ev("andor/left", n.A, env)
		if l.c == cRaise {
			return l
		}
		b, ok := truthy(l.v)
		if !ok {
			return m.giveUp("&&/|| on unknown")
		}
		if (n.Str == "&&") != b {
			return norm(l.v)
		}
		return m.ev("andor/right", n.B, env)
	case KIf:
		c := m.ev("if/cond", n.B, env)
		if c.c == cRaise {
			return c
		}
		var b bool
		if c.v.T == "obj" {
			var tr res
			if b, tr = m.truth(c.v); tr.c == cRaise {
				return tr
			}
		} else {
			var ok bool
			if b, ok = truthy(c.v); !ok {
				return m.giveUp("if on unknown")
			}
		}
		if b {
			return m.ev("if/then", n.A, env)
		}
		if n.C != nil {
			return m.ev("if/else", n.C, env)
		}
		return norm(vNil)
	case KEmb:
		var sb strings.Builder
		known := true
		for i, e := range n.L {
			r := m.ev("emb/part", e, env)
			if r.c == cRaise {
				return r
			}
			s, ok := r.v.toS()
			if r.v.T == "obj" {
				// an interpolated part stands for its text: a value with its own `S` is asked for
				// it before the next part is evaluated
				for j, k := range r.v.K {
					if k == "S" && r.v.V[j].T == "func" {
						rr := m.callAs("emb/S", r.v.V[j], []Val{r.v}, nil)
						if rr.c == cRaise {
							return rr
						}
						s, ok = rr.v.toS()
					}
				}
			}
			if !ok {
				known = false
			}
			sb.WriteString(n.Lits[i])
			sb.WriteString(s)
		}
		sb.WriteString(n.Lits[len(n.L)])
		if !known {
			return norm(vOpq)
		}
		return norm(Val{T: "str", S: sb.String()})
	case KFunc:
		f := Val{T: "func", Fn: n, Env: env}
		for _, d := range n.Kw {
			r := m.ev("func/kwdefault", d, env)
			if r.c == cRaise {
				return r
			}
			f.Kwd = append(f.Kwd, r.v)
		}
		return norm(f)
	case KCall:
		f := m.ev("call/callee", n.A, env)
		if f.c == cRaise {
			return f
		}
		args, kw, r := m.args(n, env)
		if r.c == cRaise {
			return r
		}
		return m.call(f.v, args, kw)
	case KIter:
		return norm(Val{T: "iter", Fn: n, Env: env, I: 0})
	case KTry:
		recv := m.ev("try/recv", n.A, env)
		if recv.c == cRaise {
			return recv
		}
		f := m.ev("try/fn", n.B, env)
		if f.c == cRaise {
			return f
		}
		r := m.callAs("try", f.v, []Val{recv.v}, nil)
		failed := r.c == cRaise
		switch n.Str {
		case "val":
			if failed {
				return norm(vNil)
			}
			return norm(r.v)
		case "or":
			if failed {
				return m.eval(n.C, env)
			}
			if r.v.T == "nil" {
				return norm(vOpq) // how a nil value is reported by `or` is not stated
			}
			return norm(r.v)
		case "err?":
			return norm(vBool(failed))
		case "err":
			// the caught error as a value (nil when the step succeeded): a value, not a raise,
			// wherever it is used afterwards
			if failed {
				m.caughtAsData = true
				return norm(vOpq)
			}
			return norm(vNil)
		}
		return m.giveUp("unknown try accessor")
	case KNative:
		return m.nativeCall(n, env)
	case KPin:
		v, ok := env.get(n.Str)
		if !ok {
			return m.giveUp("unbound pinned variable " + n.Str)
		}
		return norm(v)
	case KAssignE:
		// `(name := e)` inside an expression: the value of e, bound in the current scope
		r := m.ev("assign/rhs", n.A, env)
		if r.c == cRaise {
			return r
		}
		env.vars[n.Str] = r.v
		return r
	case KPropC:
		return m.propCall(n, env)
	case KLitC, KVarC:
		return m.litCall(n, env)
	}
	return m.giveUp("unknown node " + n.K)
}

type kwarg struct {
	name string
	v    Val
}

// args evaluates call arguments: positionals (and `*`/`**` items) in written
// order, then keyword arguments in written order.
func (m *Model) args(n *N, env *MEnv) ([]Val, []kwarg, res) {
	var pos []Val
	var kw, unpacked []kwarg
	addKw := func(dst *[]kwarg, k string, v Val) {
		for _, x := range *dst {
			if x.name == k {
				return
			}
		}
		*dst = append(*dst, kwarg{k, v})
	}
	evalPos := func(star2 bool) res {
		for i, a := range n.L {
			is2 := len(n.Star) > i && n.Star[i] == 2
			if is2 != star2 {
				continue
			}
			r := m.ev(callRole(n, i), a, env)
			if r.c == cRaise {
				return r
			}
			switch {
			case len(n.Star) > i && n.Star[i] == 1:
				if r.v.T != "arr" {
					return m.badExpansion("*", r.v)
				}
				pos = append(pos, r.v.E...)
			case is2:
				if r.v.T != "obj" {
					return m.badExpansion("**", r.v)
				}
				for j, k := range r.v.K {
					addKw(&unpacked, k, r.v.V[j])
				}
			default:
				pos = append(pos, r.v)
			}
		}
		return norm(vNil)
	}
	// positional phase (includes `**` items, which the generator writes last)
	if r := evalPos(false); r.c == cRaise {
		return nil, nil, r
	}
	if r := evalPos(true); r.c == cRaise {
		return nil, nil, r
	}
	for i, k := range n.Kw {
		r := m.ev(callPrefix(n)+"/kwarg", k, env)
		if r.c == cRaise {
			return nil, nil, r
		}
		addKw(&kw, n.KwNames[i], r.v)
	}
	// explicit keyword arguments win over unpacked ones
	for _, u := range unpacked {
		addKw(&kw, u.name, u.v)
	}
	return pos, kw, norm(vNil)
}

// call runs a closure as its own activation.
func (m *Model) call(f Val, args []Val, kw []kwarg) res {
	return m.callAs("call", f, args, kw)
}

// callAs runs a closure; how names the calling construct in role paths.
func (m *Model) callAs(how string, f Val, args []Val, kw []kwarg) res {
	if f.T != "func" {
		return m.giveUp("call of non-function")
	}
	env := newMEnv(f.Env)
	names := f.Fn.Names
	if f.Fn.Method {
		names = append([]string{"self"}, names...)
	}
	for i, p := range names {
		if i < len(args) {
			env.vars[p] = args[i]
		} else {
			env.vars[p] = vNil
		}
	}
	for i, name := range f.Fn.KwNames {
		v := f.Kwd[i]
		for _, k := range kw {
			if k.name == name {
				v = k.v
			}
		}
		env.vars[name] = v
	}
	m.path = append(m.path, how+"/body")
	r := m.body(f.Fn.L, env)
	m.path = m.path[:len(m.path)-1]
	return r
}

// puller yields the elements of a chain receiver one by one. For an iterator literal
// every pull is one activation of its body (pre-statements, the guarded yield, then -
// unless the guard stopped it - the post-statements; reached defers run after that).
type puller func() (v Val, done bool, r res)

func (m *Model) iterElems(v Val) (puller, bool) {
	switch v.T {
	case "arr":
		i := 0
		return func() (Val, bool, res) {
			if i >= len(v.E) {
				return vNil, true, norm(vNil)
			}
			i++
			return v.E[i-1], false, norm(vNil)
		}, true
	case "int":
		i := int64(0)
		return func() (Val, bool, res) {
			if i >= v.I {
				return vNil, true, norm(vNil)
			}
			i++
			return vInt(i), false, norm(vNil)
		}, true
	case "iter":
		cur := v.I
		lit := v.Fn
		return func() (Val, bool, res) {
			env := newMEnv(v.Env)
			env.vars["i"] = vInt(cur)
			stop := cur >= lit.Int
			stmts := append([]*N(nil), lit.L...)
			if !stop {
				stmts = append(stmts, lit.Post...)
			}
			m.path = append(m.path, "iter/body")
			r := m.body(stmts, env)
			m.path = m.path[:len(m.path)-1]
			if r.c == cRaise {
				return vNil, true, r
			}
			if stop {
				return vNil, true, norm(vNil)
			}
			cur++
			return vInt(cur - 1), false, norm(vNil)
		}, true
	}
	return nil, false
}

// chain applies a chain context; one is invoked per element/receiver.
func (m *Model) chain(c Chain, recv Val, chainArg Val, one func(recv Val, acc Val) res) res {
	thoughtful := c.Add == '~'
	lonely := c.Add == '&'
	strict := c.Add == '='
	switch c.Main {
	case '.':
		if lonely && recv.T == "nil" {
			return norm(vNil)
		}
		r := one(recv, vNil)
		if thoughtful && (r.c == cRaise || r.v.T == "nil") {
			return norm(recv)
		}
		if thoughtful && r.v.T == "opq" {
			return norm(vOpq)
		}
		return r
	case '@':
		pull, ok := m.iterElems(recv)
		if !ok {
			return m.giveUp("list chain over unknown receiver")
		}
		out := Val{T: "arr"}
		for {
			e, done, pr := pull()
			if pr.c == cRaise {
				return pr // an error raised by the iterator's body is not the callee's: it propagates
			}
			if done {
				break
			}
			if lonely && e.T == "nil" {
				continue
			}
			r := one(e, vNil)
			if r.c == cRaise {
				if thoughtful {
					out.E = append(out.E, e)
					continue
				}
				return r
			}
			if r.v.T == "nil" {
				if thoughtful {
					out.E = append(out.E, e)
				} else if strict {
					out.E = append(out.E, vNil)
				}
				continue
			}
			out.E = append(out.E, r.v)
		}
		if chainArg.T != "nil" {
			return norm(vOpq) // digest: not modelled, value unknown
		}
		return norm(out)
	case '$':
		pull, ok := m.iterElems(recv)
		if !ok {
			return m.giveUp("reduce chain over unknown receiver")
		}
		acc := chainArg
		for {
			e, done, pr := pull()
			if pr.c == cRaise {
				return pr
			}
			if done {
				break
			}
			if lonely {
				return m.giveUp("lonely reduce chain")
			}
			r := one(e, acc)
			if r.c == cRaise {
				if thoughtful {
					continue
				}
				return r
			}
			if thoughtful && r.v.T == "nil" {
				// property call keeps the accumulator, literal call takes nil (C04's
				// business, not decided here): the accumulator is unspecified from here on
				acc = vOpq
				continue
			}
			acc = r.v
		}
		return norm(acc)
	}
	return m.giveUp("unknown chain")
}

func (m *Model) propCall(n *N, env *MEnv) res {
	if n.Chain.Add == '~' {
		m.nfDepth++
		defer func() { m.nfDepth-- }()
	}
	var recv res
	if n.A == nil {
		// anonymous chain: the receiver is the current function's first argument
		v, ok := env.get("self")
		if !ok {
			return m.giveUp("anonymous chain outside a method")
		}
		recv = norm(v)
	} else {
		recv = m.ev("chain"+n.Chain.String()+"/recv", n.A, env)
	}
	if recv.c == cRaise {
		return recv
	}
	chainArg := vNil
	if n.Chain.Arg != nil {
		r := m.ev("chain"+n.Chain.String()+"/chainarg", n.Chain.Arg, env)
		if r.c == cRaise {
			return r
		}
		chainArg = r.v
	}
	args, kw, r := m.args(n, env)
	if r.c == cRaise {
		return r
	}
	if n.Str == "A" && n.Chain.Main == '.' && recv.v.T == "iter" {
		pull, _ := m.iterElems(recv.v)
		out := Val{T: "arr"}
		for {
			e, done, pr := pull()
			if pr.c == cRaise {
				return pr
			}
			if done {
				return norm(out)
			}
			out.E = append(out.E, e)
		}
	}
	one := func(rv Val, acc Val) res {
		if n.Chain.Add == '~' {
			// the callee of a thoughtful step is enclosed by the handler
			saved := m.nfDepth
			m.nfDepth = 0
			defer func() { m.nfDepth = saved }()
		}
		self := rv
		callArgs := args
		if n.Chain.Main == '$' {
			self = acc
			callArgs = append([]Val{rv}, args...)
		}
		switch n.Str {
		case "+", "-", "*":
			if self.T != "int" || len(callArgs) < 1 || callArgs[0].T != "int" {
				return m.giveUp("operator prop on non-int")
			}
			switch n.Str {
			case "+":
				return norm(vInt(self.I + callArgs[0].I))
			case "-":
				return norm(vInt(self.I - callArgs[0].I))
			default:
				return norm(vInt(self.I * callArgs[0].I))
			}
		}
		if self.T != "obj" {
			return m.giveUp("prop call on non-object")
		}
		for i, k := range self.K {
			if k == n.Str {
				p := self.V[i]
				if p.T != "func" {
					return norm(p)
				}
				return m.callAs("chain"+n.Chain.String(), p, append([]Val{self}, callArgs...), kw)
			}
		}
		return m.giveUp("unknown property " + n.Str)
	}
	return m.chain(n.Chain, recv.v, chainArg, one)
}

func (m *Model) litCall(n *N, env *MEnv) res {
	openValue := false
	if n.Chain.Add == '~' {
		m.nfDepth++
		defer func() { m.nfDepth-- }()
	}
	recv := m.ev("chain"+n.Chain.String()+"/recv", n.A, env)
	if recv.c == cRaise {
		return recv
	}
	var f res
	if n.K == KLitC {
		f = m.ev("chain"+n.Chain.String()+"/fn", n.B, env)
	} else {
		v, ok := env.get(n.Str)
		if !ok {
			return m.giveUp("unbound function " + n.Str)
		}
		f = norm(v)
	}
	if f.c == cRaise {
		return f
	}
	chainArg := vNil
	if n.Chain.Arg != nil {
		r := m.ev("chain"+n.Chain.String()+"/chainarg", n.Chain.Arg, env)
		if r.c == cRaise {
			return r
		}
		chainArg = r.v
	}
	if n.K == KVarC && (len(n.L) > 0 || len(n.Kw) > 0) && !m.dev.VarCallArgsIgnored {
		// the argument list of a variable call is written like that of any call: it is
		// evaluated once, after the chain argument (what the callee then receives of it is
		// not stated anywhere, so the value of such a call is left open)
		if _, _, r := m.args(n, env); r.c == cRaise {
			return r
		}
		openValue = true
	}
	one := func(rv Val, acc Val) res {
		if n.Chain.Add == '~' {
			saved := m.nfDepth
			m.nfDepth = 0
			defer func() { m.nfDepth = saved }()
		}
		how := "chain" + n.Chain.String()
		if n.Chain.Main == '$' {
			return m.callAs(how, f.v, []Val{acc, rv}, nil)
		}
		if len(f.v.Fn.Names) > 1 && rv.T == "arr" {
			return m.callAs(how, f.v, rv.E, nil)
		}
		return m.callAs(how, f.v, []Val{rv}, nil)
	}
	r := m.chain(n.Chain, recv.v, chainArg, one)
	if openValue && r.c != cRaise {
		return norm(vOpq)
	}
	return r
}

// nativeCall models the higher-order props of Iterable (written in Pangaea, shipped with
// the interpreter) over an array receiver: the callback is called once per element, in
// order, and an error it raises ends the whole call.
func (m *Model) nativeCall(n *N, env *MEnv) res {
	recv := m.ev("native/recv", n.A, env)
	if recv.c == cRaise {
		return recv
	}
	if recv.v.T != "arr" {
		return m.giveUp("native call on non-array")
	}
	f := m.ev("native/fn", n.B, env)
	if f.c == cRaise {
		return f
	}
	acc := vNil
	if n.C != nil {
		r := m.ev("native/kwarg", n.C, env)
		if r.c == cRaise {
			return r
		}
		acc = r.v
	}
	out := Val{T: "arr"}
	all, any := true, false
	for _, e := range recv.v.E {
		var r res
		if n.Str == "reduce" {
			r = m.callAs("native/"+n.Str, f.v, []Val{acc, e}, nil)
		} else {
			r = m.callAs("native/"+n.Str, f.v, []Val{e}, nil)
		}
		if r.c == cRaise {
			return r
		}
		if r.v.T == "opq" {
			return m.giveUp("opaque callback result")
		}
		switch n.Str {
		case "reduce":
			acc = r.v
		case "map":
			if r.v.T != "nil" {
				out.E = append(out.E, r.v)
			}
		default:
			if r.v.T == "nil" && (n.Str == "all?" || n.Str == "any?") {
				continue // `@^f` drops nil results before they are judged
			}
			t, ok := truthy(r.v)
			if !ok {
				return m.giveUp("truthiness of callback result")
			}
			if t == (n.Str == "select") && (n.Str == "select" || n.Str == "exclude") && e.T != "nil" {
				// (the methods are list chains underneath: a nil element is visited, never collected)
				out.E = append(out.E, e)
			}
			all = all && t
			any = any || t
		}
	}
	switch n.Str {
	case "reduce":
		return norm(acc)
	case "all?":
		return norm(vBool(all))
	case "any?":
		return norm(vBool(any))
	}
	return norm(out)
}

// HasSlot reports whether the subtree contains a slot.
func HasSlot(n *N) bool {
	found := false
	Walk(n, func(x *N) {
		if x.K == KSlot {
			found = true
		}
	})
	return found
}

// Walk visits n and all descendants.
func Walk(n *N, f func(*N)) {
	if n == nil {
		return
	}
	f(n)
	Walk(n.A, f)
	Walk(n.B, f)
	Walk(n.C, f)
	Walk(n.Guard, f)
	Walk(n.Chain.Arg, f)
	for _, c := range n.L {
		Walk(c, f)
	}
	for _, c := range n.Keys {
		Walk(c, f)
	}
	for _, c := range n.Kw {
		Walk(c, f)
	}
	for _, c := range n.Post {
		Walk(c, f)
	}
}

func starRole(kind string, n *N, i int) string {
	if len(n.Star) > i {
		switch n.Star[i] {
		case 1:
			return kind + "/star"
		case 2:
			return kind + "/starstar"
		}
	}
	if kind == "arr" {
		return "arr/elem"
	}
	return kind + "/value"
}

func callPrefix(n *N) string {
	if n.K == KPropC {
		return "chain" + n.Chain.String()
	}
	if n.K == KVarC {
		return "varcall"
	}
	return "call"
}

func callRole(n *N, i int) string {
	pre := callPrefix(n)
	if len(n.Star) > i {
		switch n.Star[i] {
		case 1:
			return pre + "/star"
		case 2:
			return pre + "/starstar"
		}
	}
	return pre + "/arg"
}
