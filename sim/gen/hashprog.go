package gen

import (
	"fmt"
	"strings"

	"verifsim/tape"
)

// HashProgram builds a program whose observable behaviour could depend on hash-map
// iteration order: keyword arguments and parameters (incl. duplicates), `**`
// unpacking into calls/objects/maps, duplicate keys, iteration/keys/values/items/
// printing/equality of objects and maps, evalEnv results, JSON decoding, `\_`.
// It is free-form (no reference model): the oracle is run-vs-run equality.
func HashProgram(t *tape.Tape) string {
	g := &hp{t: t, id: 1}
	var sb strings.Builder
	n := 2 + t.Intn(4)
	for i := 0; i < n; i++ {
		sb.WriteString(g.def())
		sb.WriteString("\n")
	}
	m := 2 + t.Intn(6)
	for i := 0; i < m; i++ {
		sb.WriteString(g.observe())
		sb.WriteString("\n")
	}
	return sb.String()
}

type hp struct {
	t      *tape.Tape
	id     int
	objs   []string
	maps   []string
	funcs  []string
	nvar   int
	hasBad bool
}

func (g *hp) slot() string {
	g.id++
	return fmt.Sprintf("S(%d)", g.id-1)
}

func (g *hp) val() string {
	switch g.t.Pick(4, 2, 1, 1, 1) {
	case 0:
		return g.slot()
	case 1:
		return fmt.Sprint(g.t.Intn(20))
	case 2:
		return fmt.Sprintf("%q", []string{"x", "yy", "zed"}[g.t.Intn(3)])
	case 3:
		return fmt.Sprintf("[%s, %d]", g.slot(), g.t.Intn(5))
	default:
		return "nil"
	}
}

var hpKeys = []string{"a", "b", "c", "d", "e", "f", "g", "h", "k", "j", "_p", "_q", "zz"}

func (g *hp) objLit() string {
	n := g.t.Intn(7)
	parts := []string{}
	for i := 0; i < n; i++ {
		parts = append(parts, fmt.Sprintf("%s: %s", hpKeys[g.t.Intn(len(hpKeys))], g.val()))
	}
	for i := g.t.Pick(4, 2, 1); i > 0; i-- {
		if len(g.objs) > 0 {
			parts = append(parts, "**"+g.objs[g.t.Intn(len(g.objs))])
		}
	}
	return "{" + strings.Join(parts, ", ") + "}"
}

func (g *hp) mapKey() string {
	switch g.t.Pick(4, 3, 1, 1, 1, 1, 2) {
	case 6:
		// distinct keys that print alike (floats are printed with six decimals)
		return fmt.Sprintf("%d.000000%d", g.t.Intn(2), 1+g.t.Intn(4))
	case 0:
		return fmt.Sprint(g.t.Intn(8))
	case 1:
		return fmt.Sprintf("%q", hpKeys[g.t.Intn(6)])
	case 2:
		return fmt.Sprintf("[%d]", g.t.Intn(3))
	case 3:
		return "nil"
	case 4:
		return []string{"true", "false"}[g.t.Intn(2)]
	default:
		return fmt.Sprintf("%d.5", g.t.Intn(3))
	}
}

func (g *hp) mapLit() string {
	n := g.t.Intn(7)
	parts := []string{}
	for i := 0; i < n; i++ {
		parts = append(parts, fmt.Sprintf("%s: %s", g.mapKey(), g.val()))
	}
	for i := g.t.Pick(4, 2, 1); i > 0; i-- {
		switch {
		case len(g.maps) > 0 && g.t.Chance(1, 2):
			parts = append(parts, "**"+g.maps[g.t.Intn(len(g.maps))])
		case len(g.objs) > 0:
			parts = append(parts, "**"+g.objs[g.t.Intn(len(g.objs))])
		}
	}
	return "%{" + strings.Join(parts, ", ") + "}"
}

func (g *hp) name(p string) string {
	g.nvar++
	return fmt.Sprintf("%s%d", p, g.nvar)
}

func (g *hp) def() string {
	if !g.hasBad && g.t.Chance(1, 4) {
		// a value whose own `==` raises, and objects/maps holding it next to ordinary pairs:
		// comparing them must not depend on which pair is compared first
		g.hasBad = true
		n1, n2, n3, n4 := g.name("o"), g.name("o"), g.name("m"), g.name("m")
		g.objs = append(g.objs, n1, n2)
		g.maps = append(g.maps, n3, n4)
		// (both user-defined `==` call the simulated callee: how often and in which order element
		// comparisons happen is part of the observable behaviour)
		return fmt.Sprintf("bad := {\"==\": m{|o| S(900); raise ValueErr.new(\"eqboom\")}}\nloud := {\"==\": m{|o| S(901); true}}\n%s := {a: bad, b: 1, c: loud, d: 3, e: 4}\n%s := {a: bad, b: 9, c: loud, d: 8, e: 4}\n%s := %%{1: bad, 2: 1, 3: loud, \"k\": 3}\n%s := %%{1: bad, 2: 7, 3: loud, \"k\": 6}\n(%s == %s).p\n(%s == %s).p",
			n1, n2, n3, n4, n1, n2, n3, n4)
	}
	switch g.t.Pick(4, 3, 3, 1, 1) {
	case 0:
		n := g.name("o")
		s := n + " := " + g.objLit()
		g.objs = append(g.objs, n)
		return s
	case 1:
		n := g.name("m")
		s := n + " := " + g.mapLit()
		g.maps = append(g.maps, n)
		return s
	case 2:
		n := g.name("f")
		// keyword parameters with defaults (some duplicated)
		nk := 1 + g.t.Intn(5)
		params := []string{"x"}
		names := []string{}
		for i := 0; i < nk; i++ {
			k := hpKeys[g.t.Intn(8)]
			names = append(names, k)
			params = append(params, fmt.Sprintf("%s: %s", k, g.val()))
		}
		body := "[x"
		for _, k := range names {
			body += ", " + k
		}
		body += ", \\_]"
		g.funcs = append(g.funcs, n)
		return fmt.Sprintf("%s := {|%s| %s}", n, strings.Join(params, ", "), body)
	case 3:
		n := g.name("o")
		g.objs = append(g.objs, n)
		if g.t.Chance(1, 3) {
			// several members whose decoding is unusual in different ways (numbers beyond the
			// integer range, deep nesting, repeated names): whatever the decoder makes of them -
			// values or an error - must not depend on the order it visits the members in
			odd := []string{"1e30", "9223372036854775808", "-1e25", "1.5e300", "12345678901234567890", "[1e30, 2]", "{\"x\": 1e40}", "null", "true", "\"s\""}
			var ms []string
			for i := 0; i < 3+g.t.Intn(4); i++ {
				ms = append(ms, fmt.Sprintf("\"%s\": %s", hpKeys[g.t.Intn(10)], odd[g.t.Intn(len(odd))]))
			}
			return fmt.Sprintf("%s := JSON.try.dec(`{%s}`).A", n, strings.Join(ms, ", "))
		}
		return fmt.Sprintf("%s := JSON.dec(`{\"%s\": 1, \"%s\": [2, {\"%s\": 3, \"%s\": 4}], \"%s\": {\"%s\": 5, \"%s\": 6}}`)", n,
			hpKeys[g.t.Intn(8)], hpKeys[g.t.Intn(8)], hpKeys[g.t.Intn(8)], hpKeys[g.t.Intn(8)], hpKeys[g.t.Intn(8)], hpKeys[g.t.Intn(8)], hpKeys[g.t.Intn(8)])
	default:
		n := g.name("o")
		g.objs = append(g.objs, n)
		return fmt.Sprintf("%s := \"%s := %d; %s := %d; %s := %d; %s := %d\".evalEnv", n,
			hpKeys[g.t.Intn(8)], g.t.Intn(9), hpKeys[g.t.Intn(8)], g.t.Intn(9), hpKeys[g.t.Intn(8)], g.t.Intn(9), hpKeys[g.t.Intn(8)], g.t.Intn(9))
	}
}

func (g *hp) container() string {
	switch {
	case len(g.maps) > 0 && g.t.Chance(1, 2):
		return g.maps[g.t.Intn(len(g.maps))]
	case len(g.objs) > 0:
		return g.objs[g.t.Intn(len(g.objs))]
	case len(g.maps) > 0:
		return g.maps[g.t.Intn(len(g.maps))]
	}
	if g.t.Chance(1, 2) {
		return g.objLit()
	}
	return g.mapLit()
}

func (g *hp) observe() string {
	switch g.t.Pick(5, 3, 2, 2, 2, 2, 2, 2, 1, 1) {
	case 0:
		// call with keyword arguments in arbitrary order, duplicates, `**`
		if len(g.funcs) == 0 {
			return g.container() + ".S.p"
		}
		f := g.funcs[g.t.Intn(len(g.funcs))]
		args := []string{g.val()}
		nk := g.t.Intn(5)
		for i := 0; i < nk; i++ {
			args = append(args, fmt.Sprintf("%s: %s", hpKeys[g.t.Intn(8)], g.val()))
		}
		if g.t.Chance(1, 3) {
			// keyword before positional
			args[0], args[len(args)-1] = args[len(args)-1], args[0]
		}
		for i := g.t.Pick(3, 2, 1); i > 0; i-- {
			if len(g.objs) > 0 && g.t.Chance(2, 3) {
				args = append(args, "**"+g.objs[g.t.Intn(len(g.objs))])
			} else {
				args = append(args, "**"+g.objLit())
			}
		}
		return fmt.Sprintf("%s(%s).S.p", f, strings.Join(args, ", "))
	case 1:
		c := g.container()
		acc := []string{"keys", "values", "items", "A", "S", "repr", "len", "keys(private?: true)", "items(private?: true)", "values(private?: true)"}[g.t.Intn(10)]
		return fmt.Sprintf("%s.%s.S.p", c, acc)
	case 2:
		return fmt.Sprintf("%s@{|k, v| %s; [k, v]}.S.p", g.container(), g.slot())
	case 3:
		return fmt.Sprintf("%s$([]){|acc, kv| [*acc, kv]}.S.p", g.container())
	case 4:
		return fmt.Sprintf("(%s == %s).p", g.container(), g.container())
	case 5:
		return fmt.Sprintf("\"<#{%s}|#{%s}>\".p", g.container(), g.slot())
	case 6:
		return fmt.Sprintf("%s.S.p", g.mapLit())
	case 7:
		return fmt.Sprintf("%s.S.p", g.objLit())
	case 8:
		return fmt.Sprintf("%s.bear(%s).S.p", g.container(), g.objLit())
	default:
		return fmt.Sprintf("%s@p", g.container())
	}
}
