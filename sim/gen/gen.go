package gen

import (
	"fmt"

	"verifsim/tape"
)

// Profile tunes the generator (swarm-style: the driver varies it per run).
type Profile struct {
	MaxStmts    int
	MaxDepth    int
	JumpW       int  // weight of defer/return/raise statements inside bodies (0..10)
	Thoughtful  bool // generate `~` chains (handlers)
	MultiKw     bool // several keyword arguments carrying slots in one call
	TopDefer    bool // defer at program level
	ChainW      int  // weight of chain calls
	LitW        int  // weight of container literals
	Natural     bool // occasionally an expression the interpreter itself fails on
	VarCallArgs bool // variable calls written with an argument list: recv.^f(args)
}

// DefaultProfile is the all-round profile.
func DefaultProfile() Profile {
	return Profile{MaxStmts: 6, MaxDepth: 3, JumpW: 4, Thoughtful: true, MultiKw: false, TopDefer: true, ChainW: 4, LitW: 4}
}

type fnInfo struct {
	name   string
	np     int
	kw     []string
	retInt bool
}

type objInfo struct {
	name    string
	methods []fnInfo // np excludes self
}

// G is the generator state.
type G struct {
	t           *tape.Tape
	p           Profile
	nextID      int
	slots       map[int]*N
	funcs       []fnInfo
	objs        []objInfo
	intVars     []string
	shows       []string // top-level objects with their own S method
	strVars     []string // top-level string variables (pinned keys)
	bobjs       []string // top-level objects with their own B (truthiness) method
	topInts     []string // top-level int variables (targets of compound assignment)
	curKw       []string // keyword parameters of the function literal being generated
	selfMethods []fnInfo // inside a method body: int-returning methods of the same object defined before it
	nVar        int
	noFault     int
	noBrace     int // >0 inside an embedded-string part: the lexer cannot nest `{`..`}` there
	budget      int
}

// Generate draws one program from the tape.
func Generate(t *tape.Tape, p Profile) *Program {
	g := &G{t: t, p: p, nextID: 1, slots: map[int]*N{}, budget: 120}
	prog := &Program{Slots: g.slots}
	n := 1 + t.Intn(p.MaxStmts)
	for i := 0; i < n; i++ {
		prog.Stmts = append(prog.Stmts, g.topStmt())
	}
	return prog
}

func (g *G) name(prefix string) string {
	g.nVar++
	return fmt.Sprintf("%s%d", prefix, g.nVar)
}

func (g *G) slot(ret, role string) *N {
	n := &N{K: KSlot, ID: g.nextID, Ret: ret, Role: role}
	g.nextID++
	g.slots[n.ID] = n
	return n
}

func (g *G) topStmt() *N {
	w := []int{4, 3, 2, 2, 0, 0}
	if g.p.TopDefer {
		w[4] = 1
	}
	if g.p.LitW > 0 && len(g.shows) < 2 {
		w[5] = 1
	}
	if g.p.JumpW > 0 && len(g.bobjs) < 2 && g.t.Chance(1, 5) {
		// an object that decides its own truthiness: `B` calls the simulated callee and answers
		// true or false, independently of whether the object has other properties
		name := g.name("t")
		truth := g.t.Chance(1, 2)
		body := &N{K: KFunc, Method: true, L: []*N{
			{K: KExprS, A: g.slot("id", "stmt/expr")},
			{K: KExprS, A: &N{K: KBool, Bool: truth}},
		}}
		o := &N{K: KObj, L: []*N{body}, Names: []string{"B"}, Star: []int{0}}
		if g.t.Chance(1, 2) {
			o.L = append(o.L, &N{K: KInt, Int: 1})
			o.Names = append(o.Names, "q")
			o.Star = append(o.Star, 0)
		}
		g.bobjs = append(g.bobjs, name)
		return &N{K: KAssign, Str: name, A: o}
	}
	if g.p.LitW > 0 && len(g.strVars) < 2 && g.t.Chance(1, 4) {
		// a string variable, used as a pinned key (`{^pk1: e}`) later on
		name := g.name("pk")
		g.strVars = append(g.strVars, name)
		return &N{K: KAssign, Str: name, A: &N{K: KStr, Str: "z" + name}}
	}
	switch g.t.Pick(w...) {
	case 5:
		// an object with its own `S`: interpolating it into a string calls the method
		name := g.name("s")
		body := &N{K: KFunc, Method: true, L: []*N{
			{K: KExprS, A: g.slot("id", "stmt/expr")},
			{K: KExprS, A: &N{K: KStr, Str: "<" + name + ">"}},
		}}
		g.shows = append(g.shows, name)
		return &N{K: KAssign, Str: name, A: &N{K: KObj, L: []*N{body}, Names: []string{"S"}, Star: []int{0}}}
	case 0: // expression statement
		if (len(g.funcs) > 0 || len(g.objs) > 0) && g.t.Chance(1, 2) {
			if c := g.userCall(g.p.MaxDepth, false); c != nil {
				return &N{K: KExprS, A: c}
			}
		}
		return &N{K: KExprS, A: g.anyExpr(g.p.MaxDepth, "stmt/expr")}
	case 1: // int variable
		if len(g.topInts) > 0 && g.t.Chance(1, 4) {
			// compound assignment to an existing top-level int variable
			return &N{K: KAssign, Str: g.topInts[g.t.Intn(len(g.topInts))], Msg: g.ops(), A: g.intExpr(g.p.MaxDepth, "assign/rhs")}
		}
		name := g.name("v")
		g.topInts = append(g.topInts, name)
		s := &N{K: KAssign, Str: name, A: g.intExpr(g.p.MaxDepth, "assign/rhs")}
		g.intVars = append(g.intVars, name)
		return s
	case 2: // function definition
		name := g.name("f")
		np := g.t.Intn(3)
		var kw []string
		if g.t.Chance(1, 3) {
			kw = append(kw, "k")
			if g.p.MultiKw && g.t.Chance(1, 2) {
				kw = append(kw, "j")
			}
			if g.p.MultiKw && g.t.Chance(1, 4) {
				kw = append(kw, "_p") // a private name is a keyword like any other
			}
		}
		retInt := !g.t.Chance(1, 4)
		f := g.funcLit(np, kw, false, retInt, g.p.MaxDepth, nil)
		g.funcs = append(g.funcs, fnInfo{name, np, kw, retInt})
		return &N{K: KAssign, Str: name, A: f}
	case 3: // object with methods
		name := g.name("o")
		o := &N{K: KObj}
		info := objInfo{name: name}
		nm := 1 + g.t.Intn(2)
		for i := 0; i < nm; i++ {
			np := g.t.Intn(2)
			var kw []string
			if g.t.Chance(1, 4) {
				kw = []string{"k"}
			}
			retInt := !g.t.Chance(1, 4)
			mname := fmt.Sprintf("m%d", i)
			g.selfMethods = nil
			for _, prev := range info.methods {
				if prev.retInt {
					g.selfMethods = append(g.selfMethods, prev)
				}
			}
			o.L = append(o.L, g.funcLit(np, kw, true, retInt, g.p.MaxDepth-1, nil))
			g.selfMethods = nil
			o.Names = append(o.Names, mname)
			o.Star = append(o.Star, 0)
			info.methods = append(info.methods, fnInfo{mname, np, kw, retInt})
		}
		g.objs = append(g.objs, info)
		return &N{K: KAssign, Str: name, A: o}
	default:
		return &N{K: KDefer, A: g.anyExpr(g.p.MaxDepth-1, "defer/expr")}
	}
}

// funcLit builds a function literal. params are int-typed inside the body.
func (g *G) funcLit(np int, kw []string, method, retInt bool, depth int, paramNames []string) *N {
	f := &N{K: KFunc, Method: method}
	if !method {
		// `self` of an enclosing method is not the first argument of a nested literal
		savedSelf := g.selfMethods
		g.selfMethods = nil
		defer func() { g.selfMethods = savedSelf }()
	}
	saved := g.intVars
	defer func() { g.intVars = saved }()
	scope := append([]string(nil), g.intVars...)
	for i := 0; i < np; i++ {
		var p string
		if paramNames != nil {
			p = paramNames[i]
		} else {
			p = fmt.Sprintf("p%d", i)
		}
		f.Names = append(f.Names, p)
	}
	for _, k := range kw {
		f.KwNames = append(f.KwNames, k)
		// defaults are evaluated once, when the literal is evaluated, in the defining scope
		f.Kw = append(f.Kw, g.intExpr(1, "func/kwdefault"))
	}
	g.intVars = append(append(scope, f.Names...), f.KwNames...)
	if depth < 1 {
		depth = 1
	}
	savedKw := g.curKw
	g.curKw = f.KwNames
	f.L = g.bodyStmts(retInt, depth-1)
	g.curKw = savedKw
	return f
}

func (g *G) guard(role string) *N {
	if g.t.Chance(1, 2) {
		return g.cond(role)
	}
	return nil
}

// cond is what a guard or an if tests: a boolean expression, or (sometimes) an object that
// answers `B` itself - the one truthiness rule asks the value, whatever it is.
func (g *G) cond(role string) *N {
	if len(g.bobjs) > 0 && g.t.Chance(1, 6) {
		return &N{K: KVar, Str: g.bobjs[g.t.Intn(len(g.bobjs))]}
	}
	return g.boolExpr(1, role)
}

var raiseKinds = []string{"Err", "TypeErr", "ValueErr", "NameErr", "AssertionErr"}

func (g *G) bodyStmts(retInt bool, depth int) []*N {
	var out []*N
	n := g.t.Intn(3)
	if g.p.JumpW > 0 {
		n += g.t.Intn(2)
	}
	var lateAssign *N
	if g.p.JumpW > 0 && g.t.Chance(1, 6) {
		// a deferred expression that reads a local variable which the body assigns again
		// afterwards: defers run after the body, in the body's scope as it is then
		name := g.name("lv")
		c1 := int64(g.t.Intn(5))
		out = append(out, &N{K: KAssign, Str: name, A: &N{K: KInt, Int: c1}})
		out = append(out, &N{K: KDefer, A: &N{K: KIf,
			A: g.slot("id", "if/then"),
			B: &N{K: KInfix, Str: "==", A: &N{K: KVar, Str: name}, B: &N{K: KInt, Int: c1}},
			C: g.slot("id", "if/else")}})
		lateAssign = &N{K: KAssign, Str: name, A: &N{K: KInt, Int: c1 + 1 + int64(g.t.Intn(3))}}
	}
	for i := 0; i < n; i++ {
		if lateAssign != nil && i == n/2 {
			out = append(out, lateAssign)
			lateAssign = nil
		}
		if g.p.JumpW > 0 && g.t.Intn(10) < g.p.JumpW {
			switch g.t.Pick(3, 2, 1) {
			case 0:
				d := &N{K: KDefer, A: g.anyExpr(depth, "defer/expr"), Guard: g.guard("defer/guard"), Bool: g.t.Chance(1, 6)}
				out = append(out, d)
				if g.t.Chance(1, 6) {
					// the very same defer statement once more (same text): each reached defer is one
					// registration, however alike two of them look
					out = append(out, &N{K: KDefer, A: d.A, Guard: nil, Bool: d.Bool})
				}
			case 1:
				gd := g.boolExpr(1, "return/guard")
				out = append(out, &N{K: KReturn, A: g.retExpr(retInt, depth, "return/value"), Guard: gd})
			default:
				gd := g.boolExpr(1, "raise/guard")
				out = append(out, &N{K: KRaise, A: g.errNew(), Guard: gd})
			}
			continue
		}
		out = append(out, &N{K: KExprS, A: g.anyExpr(depth, "stmt/expr")})
	}
	if lateAssign != nil {
		out = append(out, lateAssign)
	}
	// final statement
	if retInt {
		last := g.intExpr(depth, "stmt/last")
		for _, k := range g.curKw {
			// the result depends on every keyword parameter, so a wrongly bound one shows
			last = &N{K: KInfix, Str: "+", A: last, B: &N{K: KInfix, Str: "*", A: &N{K: KVar, Str: k}, B: &N{K: KInt, Int: 1000}}}
		}
		if g.p.JumpW > 0 && g.t.Chance(1, 4) {
			out = append(out, &N{K: KReturn, A: last})
		} else {
			out = append(out, &N{K: KExprS, A: last})
		}
		return out
	}
	switch g.t.Pick(3, 2, 1, 1) {
	case 0: // value or nil
		out = append(out, &N{K: KExprS, A: &N{K: KIf, A: g.intExpr(depth, "if/then"), B: g.cond("if/cond")}})
	case 1:
		out = append(out, &N{K: KExprS, A: g.anyExpr(depth, "stmt/last")})
	case 2:
		if g.p.JumpW > 0 {
			out = append(out, &N{K: KRaise, A: g.errNew()})
		} else {
			out = append(out, &N{K: KExprS, A: &N{K: KNil}})
		}
	default:
		if g.p.JumpW > 0 {
			out = append(out, &N{K: KDefer, A: g.anyExpr(depth, "defer/expr"), Guard: g.guard("defer/guard"), Bool: g.t.Chance(1, 6)})
		} else {
			out = append(out, &N{K: KExprS, A: &N{K: KNil}})
		}
	}
	return out
}

func (g *G) retExpr(retInt bool, depth int, role string) *N {
	if retInt {
		return g.intExpr(depth, role)
	}
	return g.anyExpr(depth, role)
}

func (g *G) errNew() *N {
	kind := raiseKinds[g.t.Intn(len(raiseKinds))]
	return &N{K: KErrNew, Str: kind, Msg: fmt.Sprintf("r%d", g.t.Intn(1000))}
}

// ImportsAvailable is set by a harness that has put cfbad.pangaea / cfgood.pangaea into the
// working directory of the process.
var ImportsAvailable bool

// natural draws an expression on which the interpreter itself fails (not a simulated callee):
// an unbound name, a missing property, an integer division by zero.
func (g *G) natural() *N {
	if ImportsAvailable && g.t.Chance(1, 6) {
		// a relative import of a source file that fails while it is loaded (the harness puts
		// cfbad.pangaea into the working directory): the module's error is the import's error
		call := []string{"import(\"./cfbad\")", "invite!(\"./cfbad\")", "import(\"./cfgood\").cfVal // 0"}[g.t.Intn(3)]
		return &N{K: KNat, Names: []string{call}, Str: "ZeroDivisionErr", Msg: "cannot be divided by 0"}
	}
	switch g.t.Intn(5) {
	case 4:
		// the placeholder `_`: a name that is bound - to an error that is raised whenever it is evaluated
		return &N{K: KNat, Names: []string{"_"}, Str: "NotImplementedErr", Msg: "Not implemented"}
	case 0:
		nm := g.name("undef")
		return &N{K: KNat, Names: []string{nm}, Str: "NameErr", Msg: "name `" + nm + "` is not defined"}
	case 1:
		nm := g.name("nosuch")
		return &N{K: KNat, Names: []string{fmt.Sprintf("%d.%s", g.t.Intn(10), nm)}, Str: "NoPropErr", Msg: "property `" + nm + "` is not defined."}
	case 2:
		return &N{K: KNat, Names: []string{fmt.Sprintf("%d // 0", g.t.Intn(10))}, Str: "ZeroDivisionErr", Msg: "cannot be divided by 0"}
	default:
		return &N{K: KNat, Names: []string{fmt.Sprintf("%d %% 0", 1+g.t.Intn(9))}, Str: "ZeroDivisionErr", Msg: "cannot be divided by 0"}
	}
}

func (g *G) leafInt(role string) *N {
	g.budget--
	if g.p.Natural && g.noFault == 0 && g.t.Chance(1, 40) {
		return g.natural()
	}
	switch g.t.Pick(6, 1, 1) {
	case 0:
		return g.slot("id", role)
	case 1:
		return &N{K: KInt, Int: int64(g.t.Intn(10))}
	default:
		if len(g.intVars) > 0 {
			return &N{K: KVar, Str: g.intVars[g.t.Intn(len(g.intVars))]}
		}
		return &N{K: KInt, Int: int64(g.t.Intn(10))}
	}
}

func (g *G) boolExpr(depth int, role string) *N {
	g.budget--
	if depth <= 0 || g.budget <= 0 {
		return g.boolLeaf(role)
	}
	switch g.t.Pick(6, 1, 1, 2) {
	case 3:
		// a comparison: both operands are evaluated, left first
		op := []string{"<", "<=", ">", ">=", "==", "!="}[g.t.Intn(6)]
		return &N{K: KInfix, Str: op, A: g.intExpr(depth-1, "infix/left"), B: g.intExpr(depth-1, "infix/right")}
	case 0:
		return g.boolLeaf(role)
	case 1:
		op := "&&"
		if g.t.Chance(1, 2) {
			op = "||"
		}
		return &N{K: KAndOr, Str: op, A: g.boolExpr(depth-1, "andor/left"), B: g.boolExpr(depth-1, "andor/right")}
	default:
		return &N{K: KPrefix, Str: "!", A: g.boolExpr(depth-1, "prefix/operand")}
	}
}

func (g *G) boolLeaf(role string) *N {
	switch g.t.Pick(3, 3, 1) {
	case 0:
		return g.slot("true", role)
	case 1:
		return g.slot("false", role)
	default:
		return &N{K: KBool, Bool: g.t.Chance(1, 2)}
	}
}

func (g *G) ops() string { return []string{"+", "-", "*"}[g.t.Intn(3)] }

// intExpr generates an expression whose fault-free value is an int.
func (g *G) intExpr(depth int, role string) *N {
	if depth <= 0 || g.budget <= 0 {
		return g.leafInt(role)
	}
	g.budget--
	chainW := g.p.ChainW
	if len(g.selfMethods) > 0 && g.t.Chance(1, 4) {
		// anonymous chain `.m(args)`: property call on the method's own receiver
		mth := g.selfMethods[g.t.Intn(len(g.selfMethods))]
		c := &N{K: KPropC, A: nil, Str: mth.name, Chain: Chain{Main: '.'}}
		saved := g.selfMethods
		g.selfMethods = nil
		g.callArgs(c, mth.np, mth.kw, depth-1, true)
		g.selfMethods = saved
		return c
	}
	if g.p.Thoughtful && g.noBrace == 0 && g.t.Chance(1, 14) {
		// try/Either as the enclosing handler: a failure in the body is absorbed
		return &N{K: KTry, A: g.intExpr(depth-1, "try/recv"), B: g.funcLit(1, nil, false, true, depth, []string{"x"}), Str: "or", C: &N{K: KInt, Int: int64(700 + g.t.Intn(9))}}
	}
	if g.t.Chance(1, 25) {
		// an assignment used as an expression (to a name nothing else reads)
		return &N{K: KAssignE, Str: g.name("w"), A: g.intExpr(depth-1, "assign/rhs")}
	}
	switch g.t.Pick(5, 3, 1, 2, 2, 3, chainW, chainW) {
	case 0:
		return g.leafInt(role)
	case 1:
		op := g.ops()
		if g.t.Chance(1, 8) {
			op = "<=>"
		}
		return &N{K: KInfix, Str: op, A: g.intExpr(depth-1, "infix/left"), B: g.intExpr(depth-1, "infix/right")}
	case 2:
		return &N{K: KPrefix, Str: "-", A: g.intExpr(depth-1, "prefix/operand")}
	case 3:
		return &N{K: KIf, A: g.intExpr(depth-1, "if/then"), B: g.cond("if/cond"), C: g.intExpr(depth-1, "if/else")}
	case 4:
		arr := g.intArr(depth-1, 1, "arr/elem")
		n := g.arrLen(arr)
		idx := &N{K: KInt, Int: 0}
		if n > 0 {
			idx.Int = int64(g.t.Intn(n))
		}
		if g.t.Chance(1, 3) {
			// index expression with a slot that yields 0
			return &N{K: KIndex, A: arr, B: &N{K: KInfix, Str: "*", A: g.slot("id", "index/index"), B: &N{K: KInt, Int: 0}}}
		}
		return &N{K: KIndex, A: arr, B: idx}
	case 5:
		if c := g.userCall(depth-1, true); c != nil {
			return c
		}
		return g.leafInt(role)
	case 6:
		return g.scalarChain(depth-1, true, role)
	default:
		return g.reduceChain(depth-1, role)
	}
}

// arrLen returns the statically known minimal length of an int array literal.
func (g *G) arrLen(a *N) int {
	if a.K != KArr {
		return 0
	}
	n := 0
	for i := range a.L {
		if len(a.Star) > i && a.Star[i] == 1 {
			n += g.arrLen(a.L[i])
			if a.L[i].K == KSlot {
				n += 2
			}
		} else {
			n++
		}
	}
	return n
}

// intArr generates an array literal of ints with at least min elements.
func (g *G) intArr(depth, min int, role string) *N {
	a := &N{K: KArr}
	n := min + g.t.Intn(3)
	for i := 0; i < n; i++ {
		if depth > 0 && g.t.Chance(1, 6) {
			if g.t.Chance(1, 10) {
				a.L = append(a.L, g.slot("id", "arr/star")) // `*` of something that is no array: TypeErr there
			} else if g.t.Chance(1, 2) {
				a.L = append(a.L, g.slot("arr", "arr/star"))
			} else {
				a.L = append(a.L, g.intArr(depth-1, 0, "arr/elem"))
			}
			a.Star = append(a.Star, 1)
			continue
		}
		a.L = append(a.L, g.intExpr(depth, role))
		a.Star = append(a.Star, 0)
	}
	return a
}

func (g *G) objLit(depth int) *N {
	o := &N{K: KObj}
	n := g.t.Intn(3)
	keys := []string{"a", "b", "c", "a"}
	for i := 0; i < n; i++ {
		if g.noBrace == 0 && g.t.Chance(1, 5) {
			// computed key "k#{e}" with a constant value (slots on one side of the pair only)
			g.noBrace++
			key := &N{K: KEmb, L: []*N{g.intExpr(depth, "obj/key")}, Lits: []string{"k", ""}}
			g.noBrace--
			o.L = append(o.L, &N{K: KInt, Int: int64(g.t.Intn(10))})
			o.Names = append(o.Names, "")
			o.Star = append(o.Star, 0)
			for len(o.Keys) < len(o.L)-1 {
				o.Keys = append(o.Keys, nil)
			}
			o.Keys = append(o.Keys, key)
			continue
		}
		if len(g.strVars) > 0 && g.t.Chance(1, 4) {
			// pinned key: the key is the value of a variable, the value may be anything
			o.L = append(o.L, g.anyExpr(depth, "obj/value"))
			o.Names = append(o.Names, "")
			o.Star = append(o.Star, 0)
			for len(o.Keys) < len(o.L)-1 {
				o.Keys = append(o.Keys, nil)
			}
			o.Keys = append(o.Keys, &N{K: KPin, Str: g.strVars[g.t.Intn(len(g.strVars))]})
			continue
		}
		o.L = append(o.L, g.anyExpr(depth, "obj/value"))
		o.Names = append(o.Names, keys[g.t.Intn(len(keys))])
		o.Star = append(o.Star, 0)
	}
	ns := g.t.Pick(3, 2, 1)
	for i := 0; i < ns; i++ {
		if g.t.Chance(1, 9) {
			// `**` of something that is no object: the literal fails there, with TypeErr
			o.L = append(o.L, g.slot("id", "obj/starstar"))
		} else if g.t.Chance(1, 2) || depth <= 0 {
			o.L = append(o.L, g.slot("obj", "obj/starstar"))
		} else {
			inner := &N{K: KObj, L: []*N{g.intExpr(depth-1, "obj/value")}, Names: []string{keys[g.t.Intn(3)]}, Star: []int{0}}
			o.L = append(o.L, inner)
		}
		o.Names = append(o.Names, "")
		o.Star = append(o.Star, 2)
	}
	return o
}

func (g *G) mapLit(depth int) *N {
	mp := &N{K: KMap}
	n := 1 + g.t.Intn(3)
	for i := 0; i < n; i++ {
		if g.t.Chance(1, 2) {
			// slots in the key, constant value
			mp.Keys = append(mp.Keys, g.intExpr(depth, "map/key"))
			mp.L = append(mp.L, &N{K: KInt, Int: int64(i)})
		} else if len(g.strVars) > 0 && g.t.Chance(1, 3) {
			mp.Keys = append(mp.Keys, &N{K: KPin, Str: g.strVars[g.t.Intn(len(g.strVars))]})
			mp.L = append(mp.L, g.anyExpr(depth, "map/value"))
		} else {
			mp.Keys = append(mp.Keys, &N{K: KInt, Int: int64(100 + i)})
			mp.L = append(mp.L, g.anyExpr(depth, "map/value"))
		}
		mp.Star = append(mp.Star, 0)
	}
	return mp
}

// anyExpr generates an expression of arbitrary type.
func (g *G) anyExpr(depth int, role string) *N {
	if depth <= 0 || g.budget <= 0 {
		return g.leafInt(role)
	}
	g.budget--
	lw := g.p.LitW
	if g.p.JumpW >= 4 && g.noBrace == 0 && g.t.Chance(1, 10) {
		// an iterator literal drained by `A`: one body activation (with its own defers) per value
		return &N{K: KPropC, A: g.iterLit(depth - 1), Str: "A", Chain: Chain{Main: '.'}}
	}
	if g.p.Thoughtful && g.noBrace == 0 && g.t.Chance(1, 16) {
		acc := []string{"val", "err?", "err"}[g.t.Intn(3)]
		return &N{K: KTry, A: g.intExpr(depth-1, "try/recv"), B: g.funcLit(1, nil, false, g.t.Chance(1, 2), depth, []string{"x"}), Str: acc}
	}
	if g.p.ChainW > 0 && g.t.Chance(1, 18) {
		return g.lonelyNil(depth - 1)
	}
	if g.p.ChainW > 0 && g.noBrace == 0 && g.t.Chance(1, 14) {
		return g.native(depth-1, false)
	}
	if g.p.VarCallArgs && g.t.Chance(1, 10) {
		for _, f := range g.funcs {
			if f.np == 1 {
				c := &N{K: KVarC, A: g.intExpr(depth-1, "chain/recv"), Str: f.name, Chain: Chain{Main: '.'}}
				if g.t.Chance(1, 3) {
					c.Chain.Arg = g.intExpr(depth-1, "chain/chainarg")
				}
				g.callArgs(c, 1+g.t.Intn(2), f.kw, depth-1, true)
				return c
			}
		}
	}
	switch g.t.Pick(6, lw, lw, lw/2, lw/2, lw/2, 2, g.p.ChainW, 2) {
	case 0:
		return g.intExpr(depth, role)
	case 1:
		a := &N{K: KArr}
		n := g.t.Intn(4)
		for i := 0; i < n; i++ {
			if g.t.Chance(1, 5) {
				a.L = append(a.L, g.intArr(depth-1, 0, "arr/elem"))
				a.Star = append(a.Star, 1)
			} else {
				a.L = append(a.L, g.anyExpr(depth-1, "arr/elem"))
				a.Star = append(a.Star, 0)
			}
		}
		return a
	case 2:
		return g.objLit(depth - 1)
	case 3:
		return g.mapLit(depth - 1)
	case 4:
		r := &N{K: KRange}
		r.A = g.intExpr(depth-1, "range/start")
		if g.t.Chance(3, 4) {
			r.B = g.intExpr(depth-1, "range/stop")
		}
		if g.t.Chance(1, 2) {
			r.C = g.intExpr(depth-1, "range/step")
		}
		return r
	case 5:
		e := &N{K: KEmb}
		n := 1 + g.t.Intn(3)
		g.noBrace++
		defer func() { g.noBrace-- }()
		for i := 0; i < n; i++ {
			if len(g.shows) > 0 && g.t.Chance(1, 3) {
				e.L = append(e.L, &N{K: KVar, Str: g.shows[g.t.Intn(len(g.shows))]})
			} else {
				e.L = append(e.L, g.intExpr(depth-1, "emb/part"))
			}
			e.Lits = append(e.Lits, []string{"", "a", "-"}[g.t.Intn(3)])
		}
		e.Lits = append(e.Lits, []string{"", "z"}[g.t.Intn(2)])
		return e
	case 6:
		op := "&&"
		if g.t.Chance(1, 2) {
			op = "||"
		}
		return &N{K: KAndOr, Str: op, A: g.boolExpr(1, "andor/left"), B: g.anyExpr(depth-1, "andor/right")}
	case 7:
		return g.listChain(depth-1, role)
	default:
		if c := g.userCall(depth-1, false); c != nil {
			return c
		}
		return g.scalarChain(depth-1, false, role)
	}
}

// callArgs fills positional and keyword arguments for a callee with np int params.
func (g *G) callArgs(c *N, np int, kw []string, depth int, slotsAllowed bool) {
	// sometimes pass fewer or more arguments than parameters
	n := np
	switch g.t.Pick(8, 1, 1) {
	case 1:
		if n > 0 {
			n--
		}
	case 2:
		n++
	}
	for i := 0; i < n; i++ {
		if depth > 0 && n-i >= 2 && g.t.Chance(1, 6) {
			// two arguments through one `*[a, b]`
			arr := &N{K: KArr, L: []*N{g.intExpr(depth-1, "call/star"), g.intExpr(depth-1, "call/star")}, Star: []int{0, 0}}
			c.L = append(c.L, arr)
			c.Star = append(c.Star, 1)
			i++
			continue
		}
		if g.p.Natural && g.noFault == 0 && g.t.Chance(1, 12) {
			// an argument that is nothing but a name (unbound, or the placeholder `_`) or another
			// expression the interpreter itself fails on
			c.L = append(c.L, g.natural())
		} else {
			c.L = append(c.L, g.intExpr(depth, "call/arg"))
		}
		c.Star = append(c.Star, 0)
	}
	kwWithSlots := 0
	var kwList []string
	for _, k := range kw {
		if !g.t.Chance(2, 3) {
			continue
		}
		kwList = append(kwList, k)
		if g.t.Chance(1, 6) {
			kwList = append(kwList, k) // the same keyword once more: evaluated, then ignored
		}
	}
	for _, k := range kwList {
		if g.noBrace == 0 && g.t.Chance(1, 4) && kwWithSlots == 0 {
			// pass through `**{k: e}`; sometimes twice with the same key (the first occurrence wins)
			for rep := 1 + g.t.Pick(3, 1); rep > 0; rep-- {
				inner := &N{K: KObj, L: []*N{g.intExpr(depth, "call/starstar")}, Names: []string{k}, Star: []int{0}}
				c.L = append(c.L, inner)
				c.Star = append(c.Star, 2)
			}
			kwWithSlots = 99 // no slot-bearing explicit keyword argument next to a `**`
			continue
		}
		var v *N
		if kwWithSlots >= 1 && !g.p.MultiKw {
			v = &N{K: KInt, Int: int64(g.t.Intn(10))}
		} else {
			v = g.intExpr(depth, "call/kwarg")
			if HasSlot(v) {
				kwWithSlots++
			}
		}
		c.Kw = append(c.Kw, v)
		c.KwNames = append(c.KwNames, k)
	}
	// keyword arguments may be written before positional ones
	c.Bool = len(c.Kw) > 0 && g.t.Chance(1, 4)
}

// userCall calls a previously defined function or method (nil if none fits).
func (g *G) userCall(depth int, needInt bool) *N {
	type cand struct {
		obj string
		f   fnInfo
	}
	var cs []cand
	for _, f := range g.funcs {
		if !needInt || f.retInt {
			cs = append(cs, cand{"", f})
		}
	}
	for _, o := range g.objs {
		for _, mth := range o.methods {
			if !needInt || mth.retInt {
				cs = append(cs, cand{o.name, mth})
			}
		}
	}
	if len(cs) == 0 {
		if g.noBrace == 0 && g.t.Chance(1, 2) {
			// immediately invoked literal
			np := g.t.Intn(3)
			c := &N{K: KCall, A: g.funcLit(np, nil, false, needInt || g.t.Chance(1, 2), depth, nil)}
			g.callArgs(c, np, nil, depth, true)
			return c
		}
		return nil
	}
	pick := cs[g.t.Intn(len(cs))]
	if pick.obj == "" {
		c := &N{K: KCall, A: &N{K: KVar, Str: pick.f.name}}
		g.callArgs(c, pick.f.np, pick.f.kw, depth, true)
		return c
	}
	c := &N{K: KPropC, A: &N{K: KVar, Str: pick.obj}, Str: pick.f.name, Chain: Chain{Main: '.'}}
	g.callArgs(c, pick.f.np, pick.f.kw, depth, true)
	return c
}

func (g *G) addCtx(allowLonely bool) byte {
	w := []int{6, 1, 0, 0}
	if allowLonely {
		w[2] = 1
	}
	if g.p.Thoughtful {
		w[3] = 2
	}
	return []byte{0, '=', '&', '~'}[g.t.Pick(w...)]
}

// scalarChain: recv.{|x| ...}, recv.^f, recv.+(e) with additional contexts.
func (g *G) scalarChain(depth int, needInt bool, role string) *N {
	add := g.addCtx(true)
	if add == '~' {
		g.noFault++
		defer func() { g.noFault-- }()
	}
	recv := g.intExpr(depth, "chain/recv")
	w0 := 3
	if g.noBrace > 0 {
		w0 = 0
	}
	switch g.t.Pick(w0, 2, 2) {
	case 0:
		// the callee body is enclosed by the handler: faults allowed again
		nf := g.noFault
		g.noFault = 0
		f := g.funcLit(1, nil, false, needInt || add == '~' || g.t.Chance(1, 2), depth, []string{"x"})
		g.noFault = nf
		return &N{K: KLitC, A: recv, B: f, Chain: Chain{Main: '.', Add: add}}
	case 1:
		for _, f := range g.funcs {
			if f.np == 1 && (!needInt || f.retInt) {
				c := &N{K: KVarC, A: recv, Str: f.name, Chain: Chain{Main: '.', Add: add}}
				if g.p.VarCallArgs && !needInt && g.t.Chance(1, 3) {
					g.callArgs(c, 1+g.t.Intn(2), f.kw, depth, true)
				}
				return c
			}
		}
		fallthrough
	default:
		c := &N{K: KPropC, A: recv, Str: g.ops(), Chain: Chain{Main: '.', Add: add}}
		c.L = []*N{g.intExpr(depth, "chain/arg")}
		c.Star = []int{0}
		return c
	}
}

// iterLit builds `<{|i| pre; yield i if i < L; post; recur(i + 1)}>.new(0)`; pre/post are
// expression statements and (guarded) defers that may use `i`.
func (g *G) iterLit(depth int) *N {
	it := &N{K: KIter, Int: int64(g.t.Intn(4))}
	saved := g.intVars
	savedSelf := g.selfMethods
	g.selfMethods = nil
	g.intVars = append(append([]string(nil), g.intVars...), "i")
	stmts := func(n int) []*N {
		var out []*N
		for j := 0; j < n; j++ {
			if g.p.JumpW > 0 && g.t.Chance(1, 3) {
				out = append(out, &N{K: KDefer, A: g.anyExpr(depth, "defer/expr"), Guard: g.guard("defer/guard"), Bool: g.t.Chance(1, 6)})
			} else {
				out = append(out, &N{K: KExprS, A: g.anyExpr(depth, "stmt/expr")})
			}
		}
		return out
	}
	it.L = stmts(g.t.Intn(3))
	it.Post = stmts(g.t.Intn(2))
	g.intVars = saved
	g.selfMethods = savedSelf
	return it
}

// native: a higher-order prop of Iterable (shipped Pangaea source) with a generated callback.
func (g *G) native(depth int, needInt bool) *N {
	name := "reduce"
	if !needInt {
		name = []string{"map", "select", "exclude", "all?", "any?", "reduce"}[g.t.Intn(6)]
	}
	n := &N{K: KNative, Str: name, A: g.intArr(depth, 0, "native/recv"), Bool: g.t.Chance(1, 2)}
	if name == "reduce" {
		n.B = g.funcLit(2, nil, false, true, depth, []string{"acc", "x"})
		n.C = g.intExpr(depth, "native/kwarg")
	} else {
		n.B = g.funcLit(1, nil, false, true, depth, []string{"x"})
	}
	return n
}

// lonelyNil: a lonely scalar step on a nil receiver. The step is skipped (nil), yet its
// chain argument and arguments are evaluated like those of any other call.
func (g *G) lonelyNil(depth int) *N {
	var recv *N
	if g.t.Chance(1, 2) {
		recv = g.slot("nil", "chain/recv")
	} else {
		recv = &N{K: KNil}
	}
	ch := Chain{Main: '.', Add: '&'}
	if g.t.Chance(1, 4) {
		ch.Arg = g.intExpr(depth, "chain/chainarg")
	}
	switch g.t.Pick(2, 2, 1) {
	case 0:
		c := &N{K: KPropC, A: recv, Str: g.ops(), Chain: ch}
		c.L = []*N{g.intExpr(depth, "chain/arg")}
		c.Star = []int{0}
		return c
	case 1:
		c := &N{K: KPropC, A: recv, Str: "m0", Chain: ch}
		g.callArgs(c, 1+g.t.Intn(2), []string{"k"}, depth, true)
		return c
	default:
		if g.noBrace > 0 {
			c := &N{K: KPropC, A: recv, Str: g.ops(), Chain: ch}
			c.L = []*N{g.intExpr(depth, "chain/arg")}
			c.Star = []int{0}
			return c
		}
		f := g.funcLit(1, nil, false, true, depth, []string{"x"})
		return &N{K: KLitC, A: recv, B: f, Chain: ch}
	}
}

// listChain: recv@{|x| ...}, recv@^f, recv@+(e), [o, o]@m(e)
func (g *G) listChain(depth int, role string) *N {
	add := g.addCtx(true)
	if add == '~' {
		g.noFault++
		defer func() { g.noFault-- }()
	}
	var recv *N
	if add != '~' && g.noBrace == 0 && depth > 0 && g.t.Chance(1, 7) {
		// an iterator literal as receiver: its body runs once per visited value
		recv = g.iterLit(depth - 1)
		if g.t.Chance(1, 3) {
			return &N{K: KPropC, A: recv, Str: "A", Chain: Chain{Main: '.'}}
		}
	} else if g.t.Chance(1, 8) {
		recv = &N{K: KInt, Int: int64(g.t.Intn(4))} // n@ iterates 1..n
	} else {
		recv = g.intArr(depth, 0, "chain/recv")
		if add == '&' && g.t.Chance(1, 2) {
			pos := g.t.Intn(len(recv.L) + 1)
			recv.L = append(recv.L[:pos], append([]*N{{K: KNil}}, recv.L[pos:]...)...)
			recv.Star = append(recv.Star[:pos], append([]int{0}, recv.Star[pos:]...)...)
		}
	}
	var chainArg *N
	if g.t.Chance(1, 4) {
		// an array as chain argument: the results are digested into it
		chainArg = g.intArr(depth, 0, "chain/chainarg")
	}
	switch g.t.Pick(3, 2, 2, 2) {
	case 0:
		nf := g.noFault
		g.noFault = 0
		var ckw []string
		if g.t.Chance(1, 5) {
			ckw = []string{"k"} // a keyword parameter whose default is evaluated with the literal
		}
		f := g.funcLit(1, ckw, false, g.t.Chance(1, 2), depth, []string{"x"})
		g.noFault = nf
		return &N{K: KLitC, A: recv, B: f, Chain: Chain{Main: '@', Add: add, Arg: chainArg}}
	case 1:
		for _, f := range g.funcs {
			if f.np == 1 {
				return &N{K: KVarC, A: recv, Str: f.name, Chain: Chain{Main: '@', Add: add, Arg: chainArg}}
			}
		}
		fallthrough
	case 2:
		if len(g.objs) > 0 && recv.K == KArr {
			o := g.objs[g.t.Intn(len(g.objs))]
			mth := o.methods[g.t.Intn(len(o.methods))]
			n := g.t.Intn(3)
			r := &N{K: KArr}
			for i := 0; i < n; i++ {
				r.L = append(r.L, &N{K: KVar, Str: o.name})
				r.Star = append(r.Star, 0)
			}
			c := &N{K: KPropC, A: r, Str: mth.name, Chain: Chain{Main: '@', Add: add, Arg: chainArg}}
			g.callArgs(c, mth.np, mth.kw, depth, true)
			return c
		}
		fallthrough
	default:
		c := &N{K: KPropC, A: recv, Str: g.ops(), Chain: Chain{Main: '@', Add: add, Arg: chainArg}}
		c.L = []*N{g.intExpr(depth, "chain/arg")}
		c.Star = []int{0}
		return c
	}
}

// reduceChain: recv$(init){|acc, x| ...}, recv$(init)+
func (g *G) reduceChain(depth int, role string) *N {
	var add byte
	if g.p.Thoughtful && g.t.Chance(1, 5) {
		add = '~'
		g.noFault++
		defer func() { g.noFault-- }()
	}
	if add != '~' && g.noBrace == 0 && g.t.Chance(1, 6) {
		return g.native(depth, true)
	}
	recv := g.intArr(depth, 0, "chain/recv")
	if add != '~' && g.noBrace == 0 && depth > 0 && g.t.Chance(1, 7) {
		recv = g.iterLit(depth - 1) // folding over an iterator literal: one body activation per value
	}
	init := g.intExpr(depth, "chain/chainarg")
	if g.noBrace == 0 && g.t.Chance(1, 2) {
		nf := g.noFault
		g.noFault = 0
		var ckw []string
		if g.t.Chance(1, 5) {
			ckw = []string{"k"}
		}
		f := g.funcLit(2, ckw, false, true, depth, []string{"acc", "x"})
		g.noFault = nf
		return &N{K: KLitC, A: recv, B: f, Chain: Chain{Main: '$', Add: add, Arg: init}}
	}
	c := &N{K: KPropC, A: recv, Str: g.ops(), Chain: Chain{Main: '$', Add: add, Arg: init}}
	// extra arguments (ignored by the operator, but evaluated once, after the chain argument)
	for i := g.t.Pick(2, 2, 1); i > 0; i-- {
		c.L = append(c.L, g.intExpr(depth, "chain/arg"))
		c.Star = append(c.Star, 0)
	}
	return c
}
