// Package verifseam is the runtime the instrumenter links into a scratch copy of
// the repository.  It is never part of /repo.  Everything here is written so that
// the race detector does not see the simulator's own bookkeeping (go:norace, no
// maps / append / fmt on hot paths), while the program's own memory accesses stay
// visible.
package verifseam

import (
	"reflect"
	"sort"
	"strconv"
)

// Entry is one key/value pair of a ranged map.
type Entry[K comparable, V any] struct {
	K K
	V V
}

// MapOrder, when set, chooses the iteration order of one dynamic map range:
// it receives the site name and the number of entries and returns a permutation
// of 0..n-1 applied to the canonically sorted entries.  nil means canonical order.
var MapOrder func(site string, n int) []int

// Ties counts canonical-order ties (two keys the seam cannot order): replay-unstable.
var Ties int

// Entries returns the entries of m in the order the simulator chose.
func Entries[K comparable, V any](site string, m map[K]V) []Entry[K, V] {
	es := make([]Entry[K, V], 0, len(m))
	for k, v := range m {
		es = append(es, Entry[K, V]{k, v})
	}
	if len(es) < 2 {
		return es
	}
	sortEntries(es)
	if MapOrder != nil {
		perm := MapOrder(site, len(es))
		if len(perm) == len(es) {
			out := make([]Entry[K, V], len(es))
			for i, p := range perm {
				out[i] = es[p]
			}
			return out
		}
	}
	return es
}

func sortEntries[K comparable, V any](es []Entry[K, V]) {
	switch any(es[0].K).(type) {
	case uint64:
		sort.Slice(es, func(i, j int) bool { return any(es[i].K).(uint64) < any(es[j].K).(uint64) })
	case string:
		sort.Slice(es, func(i, j int) bool { return any(es[i].K).(string) < any(es[j].K).(string) })
	case int:
		sort.Slice(es, func(i, j int) bool { return any(es[i].K).(int) < any(es[j].K).(int) })
	default:
		keys := make([]string, len(es))
		for i := range es {
			keys[i] = canonKey(reflect.ValueOf(es[i].K), 0)
		}
		idx := make([]int, len(es))
		for i := range idx {
			idx[i] = i
		}
		sort.SliceStable(idx, func(a, b int) bool { return keys[idx[a]] < keys[idx[b]] })
		for i := 1; i < len(idx); i++ {
			if keys[idx[i]] == keys[idx[i-1]] {
				Ties++
			}
		}
		out := make([]Entry[K, V], len(es))
		for i, j := range idx {
			out[i] = es[j]
		}
		copy(es, out)
	}
}

// canonKey renders a key as a string whose lexical order is the canonical order.
// Pointer keys with a source position (ast nodes: field Src.Pos.{Line,Column}) sort
// by position, then by their Value field.
func canonKey(v reflect.Value, depth int) string {
	if depth > 4 || !v.IsValid() {
		return ""
	}
	switch v.Kind() {
	case reflect.Uint, reflect.Uint8, reflect.Uint16, reflect.Uint32, reflect.Uint64:
		return pad(strconv.FormatUint(v.Uint(), 10), 20)
	case reflect.Int, reflect.Int8, reflect.Int16, reflect.Int32, reflect.Int64:
		return pad(strconv.FormatInt(v.Int()+(1<<62), 10), 20)
	case reflect.String:
		return v.String()
	case reflect.Bool:
		if v.Bool() {
			return "1"
		}
		return "0"
	case reflect.Ptr, reflect.Interface:
		if v.IsNil() {
			return ""
		}
		return canonKey(v.Elem(), depth+1)
	case reflect.Struct:
		s := ""
		if src := v.FieldByName("Src"); src.IsValid() && src.Kind() == reflect.Ptr && !src.IsNil() {
			if pos := src.Elem().FieldByName("Pos"); pos.IsValid() && pos.Kind() == reflect.Struct {
				s += canonKey(pos.FieldByName("Line"), depth+1) + ":" + canonKey(pos.FieldByName("Column"), depth+1) + ":"
			}
			if val := v.FieldByName("Value"); val.IsValid() {
				s += canonKey(val, depth+1)
			}
			return s
		}
		for i := 0; i < v.NumField(); i++ {
			f := v.Field(i)
			if f.Kind() == reflect.Ptr || f.Kind() == reflect.Interface || f.Kind() == reflect.Func || f.Kind() == reflect.Map || f.Kind() == reflect.Slice {
				continue
			}
			s += canonKey(f, depth+1) + "\x00"
		}
		return s
	}
	return ""
}

func pad(s string, n int) string {
	for len(s) < n {
		s = "0" + s
	}
	return s
}
