//go:build !race

package verifseam

// RaceBuild reports whether the binary was built with -race.
const RaceBuild = false

func raceDisable() {}
func raceEnable()  {}
