//go:build race

package verifseam

import "runtime"

// RaceBuild reports whether the binary was built with -race.
const RaceBuild = true

//go:norace
func raceDisable() { runtime.RaceDisable() }

//go:norace
func raceEnable() { runtime.RaceEnable() }
