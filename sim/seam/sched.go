package verifseam

import (
	"sync"
	"unsafe"
)

// SCHED: a seeded token-passing scheduler.  All program goroutines are real, but
// exactly one holds the run token; it is handed over only at instrumented points,
// where the running task itself decides (PRNG or explicit schedule) who goes next.
// Every function here is go:norace and uses fixed-size arrays only, and every
// hand-off is wrapped in raceDisable/raceEnable, so the race detector sees the
// program's own synchronisation (go, mutex, its channels) and nothing of ours.

const (
	maxTasks  = 64
	maxLocks  = 16
	maxChans  = 64
	maxVars   = 16
	maxSwitch = 1 << 16
	maxOps    = 1 << 15
	maxSites  = 128
)

const (
	stFree = iota
	stRunnable
	stRunning
	stBlockedLock
	stBlockedChan
	stBlockedJoin
	stDone
)

type task struct {
	state   int
	wake    chan struct{}
	lockIdx int
	wantW   bool
	vc      [maxTasks]uint32
}

type lockState struct {
	ptr     unsafe.Pointer
	writer  int // task id+1, 0 none
	readers int
	vc      [maxTasks]uint32 // release clock
}

type chanState struct {
	ptr      unsafe.Pointer
	sendWait int // task id+1
	recvWait int
	vc       [maxTasks]uint32
}

type varState struct {
	name   string
	wTask  int // last writer task+1
	wClock uint32
	wSite  string
	rClock [maxTasks]uint32
	rSite  [maxTasks]string
}

// Switch is one recorded scheduling decision that changed the running task.
type Switch struct {
	At uint32 // yield index
	To uint8
}

// RaceRec is a race found by the built-in vector-clock check.
type RaceRec struct {
	Var            string
	Site1, Site2   string
	Write1, Write2 bool
	Task1, Task2   int
	AtYield        uint32
}

// Op is one recorded symbol-table operation (for the linearizability check).
type Op struct {
	Task      uint8
	Kind      uint8 // 0 GetSymHash, 1 SymHash2Str
	Call, Ret uint32
	Hash      uint64
	Str       string
	OK        bool
	Done      bool
}

// Config of one scheduled run.
type Config struct {
	Seed       uint64
	SwitchPerK uint32   // probability of switching at a yield point, per 1024
	EvalPerK   uint32   // same, for the evaluator.Eval yield site (much more frequent)
	Explicit   []Switch // if non-nil: replay exactly these switches, no PRNG
	Fuel       int64    // max yields (0 = unlimited); exceeded => panic(FuelExhausted)
}

// FuelExhausted is the panic value raised when a run exceeds its fuel.
type fuelExhausted struct{}

func (fuelExhausted) Error() string { return "verifseam: fuel exhausted" }

// FuelExhausted is the sentinel panic value.
var FuelExhausted error = fuelExhausted{}

var (
	active          bool
	cur             int
	ntasks          int
	tasks           [maxTasks]task
	locks           [maxLocks]lockState
	nlocks          int
	chans           [maxChans]chanState
	nchans          int
	vars            [maxVars]varState
	nvars           int
	rng             uint64
	cfg             Config
	yields          uint32
	seqno           uint32
	switches        [maxSwitch]Switch
	nswitch         int
	expPos          int
	races           [64]RaceRec
	nraces          int
	ops             [maxOps]Op
	nops            int
	siteNames       [maxSites]string
	siteHits        [maxSites]uint32
	nsites          int
	deadlock        bool
	probeAfterWrite uint32 // a switch landed right after another task's table write
	lastWriteTask   int
	fuel            int64
	fuelOn          bool
)

//go:norace
func next() uint64 {
	rng += 0x9E3779B97F4A7C15
	z := rng
	z = (z ^ (z >> 30)) * 0xBF58476D1CE4E5B9
	z = (z ^ (z >> 27)) * 0x94D049BB133111EB
	return z ^ (z >> 31)
}

// Begin turns the calling goroutine into task 0 of a scheduled run.
//
//go:norace
func Begin(c Config) {
	raceDisable()
	cur = 0
	ntasks = 1
	for i := range tasks {
		tasks[i].state = stFree
		tasks[i].vc = [maxTasks]uint32{}
	}
	tasks[0].state = stRunning
	tasks[0].vc[0] = 1
	if tasks[0].wake == nil {
		tasks[0].wake = make(chan struct{}, 1)
	}
	nlocks, nchans, nvars = 0, 0, 0
	for i := range locks {
		locks[i] = lockState{}
	}
	for i := range chans {
		chans[i] = chanState{}
	}
	for i := range vars {
		vars[i] = varState{}
	}
	cfg = c
	rng = c.Seed
	yields, seqno, nswitch, expPos, nraces, nops = 0, 0, 0, 0, 0, 0
	for i := range siteHits {
		siteHits[i] = 0
	}
	deadlock = false
	probeAfterWrite = 0
	lastWriteTask = -1
	fuel = c.Fuel
	fuelOn = c.Fuel > 0
	active = true
	raceEnable()
}

// End stops scheduling (remaining tasks, if any, keep their state; callers Join first).
//
//go:norace
func End() {
	raceDisable()
	active = false
	fuelOn = false
	raceEnable()
}

// SetFuel arms the fuel counter without a scheduled run (single task).
//
//go:norace
func SetFuel(n int64) {
	fuel = n
	fuelOn = n > 0
}

// FuelOn reports whether a step budget is being counted down.
//
//go:norace
func FuelOn() bool { return fuelOn }

// Active reports whether a scheduled run is in progress.
//
//go:norace
func Active() bool { return active }

//go:norace
func siteIdx(site string) int {
	for i := 0; i < nsites; i++ {
		if siteNames[i] == site {
			return i
		}
	}
	if nsites < maxSites {
		siteNames[nsites] = site
		nsites++
		return nsites - 1
	}
	return maxSites - 1
}

//go:norace
func runnableCount() int {
	n := 0
	for i := 0; i < ntasks; i++ {
		if tasks[i].state == stRunnable {
			n++
		}
	}
	return n
}

//go:norace
func nthRunnable(k int) int {
	for i := 0; i < ntasks; i++ {
		if tasks[i].state == stRunnable {
			if k == 0 {
				return i
			}
			k--
		}
	}
	return -1
}

// park blocks the calling task until it is handed the token.
//
//go:norace
func park(me int) {
	w := tasks[me].wake
	raceDisable()
	<-w
	raceEnable()
}

//go:norace
func wakeTask(t int) {
	w := tasks[t].wake
	raceDisable()
	w <- struct{}{}
	raceEnable()
}

// handTo gives the token to task t; the caller must already have set its own state.
//
//go:norace
func handTo(me, t int) {
	if nswitch < maxSwitch {
		switches[nswitch] = Switch{At: yields, To: uint8(t)}
		nswitch++
	}
	if lastWriteTask >= 0 && lastWriteTask != t {
		probeAfterWrite++
	}
	tasks[t].state = stRunning
	cur = t
	wakeTask(t)
	if tasks[me].state != stDone {
		park(me)
	}
}

// blockAndSwitch: the caller cannot continue; pick any runnable task.
//
//go:norace
func blockAndSwitch(me int) {
	n := runnableCount()
	if n == 0 {
		deadlock = true
		// nothing can run: release everybody so the process can end; the driver
		// treats a deadlock flag as infrastructure (exit 2)
		active = false
		for i := 0; i < ntasks; i++ {
			if i != me && tasks[i].state != stDone && tasks[i].state != stFree {
				wakeTask(i)
			}
		}
		return
	}
	yields++
	handTo(me, forcedTarget(n))
}

// forcedTarget picks the next task when the current one cannot continue.
//
//go:norace
func forcedTarget(n int) int {
	if cfg.Explicit == nil {
		if nswitch >= maxSwitch {
			// the recording is full: from here on the schedule follows the rule a replay
			// applies when its list has run out (first runnable task), so that the
			// truncated recording still determines the whole run
			return nthRunnable(0)
		}
		return nthRunnable(int(next() % uint64(n)))
	}
	if t, ok := explicitTarget(); ok && tasks[t].state == stRunnable {
		return t
	}
	return nthRunnable(0)
}

//go:norace
func explicitTarget() (int, bool) {
	for expPos < len(cfg.Explicit) && cfg.Explicit[expPos].At < yields {
		expPos++
	}
	if expPos < len(cfg.Explicit) && cfg.Explicit[expPos].At == yields {
		t := int(cfg.Explicit[expPos].To)
		expPos++
		if t < ntasks {
			return t, true
		}
	}
	return 0, false
}

// Yield is a scheduling point.
//
//go:norace
func Yield(site string) {
	if fuelOn {
		fuel--
		if fuel < 0 {
			fuelOn = false
			panic(FuelExhausted)
		}
	}
	if !active {
		return
	}
	yieldAt(site, cfg.SwitchPerK)
}

// YieldEval is the scheduling point at the entry of evaluator.Eval.
//
//go:norace
func YieldEval() {
	if fuelOn {
		fuel--
		if fuel < 0 {
			fuelOn = false
			panic(FuelExhausted)
		}
	}
	if !active {
		return
	}
	yieldAt("evaluator.Eval", cfg.EvalPerK)
}

//go:norace
func yieldAt(site string, perK uint32) {
	me := cur
	yields++
	siteHits[siteIdx(site)]++
	if cfg.Explicit != nil {
		if t, ok := explicitTarget(); ok && t != me && tasks[t].state == stRunnable {
			tasks[me].state = stRunnable
			handTo(me, t)
		}
		return
	}
	if perK == 0 || nswitch >= maxSwitch || uint32(next()%1024) >= perK {
		return // (no voluntary switches once the recording is full, see forcedTarget)
	}
	n := runnableCount()
	if n == 0 {
		return
	}
	t := nthRunnable(int(next() % uint64(n)))
	tasks[me].state = stRunnable
	handTo(me, t)
}

//go:norace
func joinVC(dst, src *[maxTasks]uint32) {
	for i := 0; i < maxTasks; i++ {
		if src[i] > dst[i] {
			dst[i] = src[i]
		}
	}
}

// Go starts f as a new task.
//
//go:norace
func Go(site string, f func()) {
	if !active {
		go f()
		return
	}
	me := cur
	if ntasks >= maxTasks {
		panic("verifseam: too many tasks")
	}
	id := ntasks
	ntasks++
	tasks[id].state = stRunnable
	tasks[id].wake = make(chan struct{}, 1)
	tasks[id].vc = tasks[me].vc
	tasks[id].vc[id] = 1
	tasks[me].vc[me]++
	go taskMain(id, f)
	yieldAt(site, cfg.SwitchPerK)
}

//go:norace
func taskMain(id int, f func()) {
	park(id)
	defer taskExit(id)
	f()
}

//go:norace
func taskExit(id int) {
	if !active {
		return
	}
	tasks[id].state = stDone
	// wake joiners
	for i := 0; i < ntasks; i++ {
		if tasks[i].state == stBlockedJoin && othersDone(i) {
			tasks[i].state = stRunnable
		}
	}
	n := runnableCount()
	if n == 0 {
		deadlock = true
		active = false
		return
	}
	yields++
	handTo(id, forcedTarget(n))
}

//go:norace
func othersDone(me int) bool {
	for i := 0; i < ntasks; i++ {
		if i != me && tasks[i].state != stDone && tasks[i].state != stFree {
			return false
		}
	}
	return true
}

// Join blocks the calling task until every other task has finished.
//
//go:norace
func Join() {
	if !active {
		return
	}
	me := cur
	for !othersDone(me) {
		tasks[me].state = stBlockedJoin
		blockAndSwitch(me)
		if !active {
			return
		}
	}
	for i := 0; i < ntasks; i++ {
		if i != me {
			joinVC(&tasks[me].vc, &tasks[i].vc)
		}
	}
}

//go:norace
func lockIdx(p unsafe.Pointer) int {
	for i := 0; i < nlocks; i++ {
		if locks[i].ptr == p {
			return i
		}
	}
	if nlocks >= maxLocks {
		panic("verifseam: too many locks")
	}
	locks[nlocks].ptr = p
	nlocks++
	return nlocks - 1
}

//go:norace
func acquire(p unsafe.Pointer, write bool, site string) {
	yieldAt(site, cfg.SwitchPerK)
	me := cur
	li := lockIdx(p)
	for {
		l := &locks[li]
		if write && l.writer == 0 && l.readers == 0 {
			l.writer = me + 1
			break
		}
		if !write && l.writer == 0 {
			l.readers++
			break
		}
		tasks[me].state = stBlockedLock
		tasks[me].lockIdx = li
		tasks[me].wantW = write
		blockAndSwitch(me)
		if !active {
			return
		}
	}
	joinVC(&tasks[me].vc, &locks[li].vc)
}

//go:norace
func release(p unsafe.Pointer, write bool) {
	me := cur
	li := lockIdx(p)
	l := &locks[li]
	if write {
		l.writer = 0
	} else if l.readers > 0 {
		l.readers--
	}
	joinVC(&l.vc, &tasks[me].vc)
	tasks[me].vc[me]++
	for i := 0; i < ntasks; i++ {
		if tasks[i].state == stBlockedLock && tasks[i].lockIdx == li {
			tasks[i].state = stRunnable
		}
	}
}

// RWLock etc. model sync.RWMutex / sync.Mutex and then perform the real operation,
// which cannot block (the model says the lock is free) but keeps the program's
// happens-before edge visible to the race detector.
//
//go:norace
func RWLock(m *sync.RWMutex) {
	if active {
		acquire(unsafe.Pointer(m), true, "RWMutex.Lock")
	}
	m.Lock()
}

//go:norace
func RWUnlock(m *sync.RWMutex) {
	m.Unlock()
	if active {
		release(unsafe.Pointer(m), true)
		yieldAt("RWMutex.Unlock", cfg.SwitchPerK)
	}
}

//go:norace
func RWRLock(m *sync.RWMutex) {
	if active {
		acquire(unsafe.Pointer(m), false, "RWMutex.RLock")
	}
	m.RLock()
}

//go:norace
func RWRUnlock(m *sync.RWMutex) {
	m.RUnlock()
	if active {
		release(unsafe.Pointer(m), false)
		yieldAt("RWMutex.RUnlock", cfg.SwitchPerK)
	}
}

//go:norace
func MuLock(m *sync.Mutex) {
	if active {
		acquire(unsafe.Pointer(m), true, "Mutex.Lock")
	}
	m.Lock()
}

//go:norace
func MuUnlock(m *sync.Mutex) {
	m.Unlock()
	if active {
		release(unsafe.Pointer(m), true)
		yieldAt("Mutex.Unlock", cfg.SwitchPerK)
	}
}

//go:norace
func chanIdx(p unsafe.Pointer) int {
	for i := 0; i < nchans; i++ {
		if chans[i].ptr == p {
			return i
		}
	}
	if nchans >= maxChans {
		panic("verifseam: too many channels")
	}
	chans[nchans].ptr = p
	nchans++
	return nchans - 1
}

// Send models an unbuffered rendezvous and then performs the real send.
//
//go:norace
func Send[T any](site string, ch chan T, v T) {
	if !active || cap(ch) > 0 {
		ch <- v
		return
	}
	yieldAt(site, cfg.SwitchPerK)
	me := cur
	ci := chanIdx(*(*unsafe.Pointer)(unsafe.Pointer(&ch)))
	c := &chans[ci]
	if c.recvWait != 0 {
		r := c.recvWait - 1
		c.recvWait = 0
		// rendezvous: both sides learn each other's clock
		joinVC(&tasks[r].vc, &tasks[me].vc)
		joinVC(&tasks[me].vc, &tasks[r].vc)
		tasks[me].vc[me]++
		tasks[r].vc[r]++
		tasks[r].state = stRunnable
		wakeTask(r) // r performs the real receive, then parks again as runnable
		ch <- v
		return
	}
	c.sendWait = me + 1
	tasks[me].state = stBlockedChan
	blockAndSwitch(me)
	// woken by the receiver: do the real send, then wait for the token
	ch <- v
	if active {
		park(me)
	}
}

// Recv models an unbuffered rendezvous and then performs the real receive.
//
//go:norace
func Recv[T any](site string, ch chan T) T {
	if !active || cap(ch) > 0 {
		return <-ch
	}
	yieldAt(site, cfg.SwitchPerK)
	me := cur
	ci := chanIdx(*(*unsafe.Pointer)(unsafe.Pointer(&ch)))
	c := &chans[ci]
	if c.sendWait != 0 {
		s := c.sendWait - 1
		c.sendWait = 0
		joinVC(&tasks[s].vc, &tasks[me].vc)
		joinVC(&tasks[me].vc, &tasks[s].vc)
		tasks[me].vc[me]++
		tasks[s].vc[s]++
		tasks[s].state = stRunnable
		wakeTask(s) // s performs the real send, then parks again as runnable
		return <-ch
	}
	c.recvWait = me + 1
	tasks[me].state = stBlockedChan
	blockAndSwitch(me)
	v := <-ch
	if active {
		park(me)
	}
	return v
}

//go:norace
func varIdx(name string) int {
	for i := 0; i < nvars; i++ {
		if vars[i].name == name {
			return i
		}
	}
	if nvars >= maxVars {
		return maxVars - 1
	}
	vars[nvars].name = name
	nvars++
	return nvars - 1
}

// Access records a read or write of a package-level table and checks it against
// the vector clocks (exact happens-before race check, independent of TSan).
//
//go:norace
func Access(name string, site string, write bool) {
	if !active {
		return
	}
	yieldAt(site, cfg.SwitchPerK)
	me := cur
	v := &vars[varIdx(name)]
	myvc := &tasks[me].vc
	// conflict with the last write?
	if v.wTask != 0 && v.wTask-1 != me && v.wClock > myvc[v.wTask-1] {
		addRace(name, v.wSite, site, true, write, v.wTask-1, me)
	}
	if write {
		for t := 0; t < ntasks; t++ {
			if t != me && v.rClock[t] > myvc[t] {
				addRace(name, v.rSite[t], site, false, true, t, me)
			}
		}
		v.wTask = me + 1
		v.wClock = myvc[me]
		v.wSite = site
		lastWriteTask = me
	} else {
		v.rClock[me] = myvc[me]
		v.rSite[me] = site
	}
}

//go:norace
func addRace(name, s1, s2 string, w1, w2 bool, t1, t2 int) {
	for i := 0; i < nraces; i++ {
		if races[i].Var == name && races[i].Site1 == s1 && races[i].Site2 == s2 {
			return
		}
	}
	if nraces < len(races) {
		races[nraces] = RaceRec{Var: name, Site1: s1, Site2: s2, Write1: w1, Write2: w2, Task1: t1, Task2: t2, AtYield: yields}
		nraces++
	}
}

// OpBegin / OpEnd record one symbol-table operation with global sequence numbers.
//
//go:norace
func OpBegin(kind uint8, str string, hash uint64) int {
	if !active {
		return -1
	}
	yieldAt("symtab.op", cfg.SwitchPerK)
	if nops >= maxOps {
		return -1
	}
	seqno++
	i := nops
	nops++
	ops[i] = Op{Task: uint8(cur), Kind: kind, Call: seqno, Str: str, Hash: hash}
	return i
}

//go:norace
func OpEnd(i int, str string, hash uint64, ok bool) {
	if i < 0 || !active {
		return
	}
	seqno++
	ops[i].Ret = seqno
	ops[i].Done = true
	ops[i].OK = ok
	if ops[i].Kind == 0 {
		ops[i].Hash = hash
	} else {
		ops[i].Str = str
	}
}

// Report is what a finished run hands to the worker.
type Report struct {
	Yields     uint32
	Switches   []Switch
	Races      []RaceRec
	Ops        []Op
	Deadlock   bool
	Tasks      int
	SiteHits   map[string]uint32
	AfterWrite uint32
}

// Collect copies the run's records out (call after End, from a single goroutine).
func Collect() Report {
	r := Report{Yields: yields, Deadlock: deadlock, Tasks: ntasks, AfterWrite: probeAfterWrite, SiteHits: map[string]uint32{}}
	r.Switches = append(r.Switches, switches[:nswitch]...)
	r.Races = append(r.Races, races[:nraces]...)
	r.Ops = append(r.Ops, ops[:nops]...)
	for i := 0; i < nsites; i++ {
		if siteHits[i] > 0 {
			r.SiteHits[siteNames[i]] = siteHits[i]
		}
	}
	return r
}
