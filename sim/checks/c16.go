package checks

import (
	"encoding/json"
	"fmt"
	"io"
	"os"
	"path/filepath"
	"sort"
	"strings"

	"github.com/Syuparn/pangaea/parser"

	"verifsim/gen"
	"verifsim/harness"
	"verifsim/tape"
)

// ---- SIMREADER: an io.Reader whose every Read is decided by the tape ----

// SimReader delivers data in chunks chosen by a policy.
type SimReader struct {
	data    []byte
	pos     int
	policy  string
	fixed   int
	t       *tape.Tape
	eofWith bool // deliver the final bytes together with io.EOF
	Reads   int
	Short   int
	OneByte int
	sched   []int
}

var chunkSizes = []int{1, 2, 3, 7, 100, 1023, 1024, 1025, 2047, 2048, 4096}

func (r *SimReader) Read(p []byte) (int, error) {
	if r.pos >= len(r.data) {
		return 0, io.EOF
	}
	n := len(p)
	switch r.policy {
	case "full":
	case "fixed":
		n = r.fixed
	case "mix":
		n = chunkSizes[r.t.Intn(len(chunkSizes))]
	case "tiny":
		n = 1 + r.t.Intn(3)
	}
	if n > len(p) {
		n = len(p)
	}
	if n > len(r.data)-r.pos {
		n = len(r.data) - r.pos
	}
	if n < 1 {
		n = 1
	}
	copy(p, r.data[r.pos:r.pos+n])
	r.pos += n
	r.Reads++
	if n < len(p) && r.pos < len(r.data) {
		r.Short++
	}
	if n == 1 {
		r.OneByte++
	}
	if len(r.sched) < 64 {
		r.sched = append(r.sched, n)
	}
	if r.pos >= len(r.data) && r.eofWith {
		return n, io.EOF
	}
	return n, nil
}

func newSimReader(t *tape.Tape, data string) *SimReader {
	r := &SimReader{data: []byte(data), t: t}
	switch t.Pick(1, 3, 3, 2) {
	case 0:
		r.policy = "full"
	case 1:
		r.policy = "fixed"
		r.fixed = chunkSizes[t.Intn(len(chunkSizes))]
	case 2:
		r.policy = "mix"
	default:
		r.policy = "tiny"
	}
	r.eofWith = t.Chance(1, 3)
	return r
}

func (r *SimReader) describe() string {
	s := r.policy
	if r.policy == "fixed" {
		s = fmt.Sprintf("fixed%d", r.fixed)
	}
	if r.eofWith {
		s += "+eof"
	}
	return s
}

// parseWith parses src through the given reader; returns the AST string or an error.
func parseWith(rd io.Reader) (s string, err error) {
	defer func() {
		if r := recover(); r != nil {
			err = fmt.Errorf("HOST PANIC escaping parser.Parse: %v", r)
		}
	}()
	prog, e := parser.Parse(parser.NewReader(rd, "<sim>"))
	if e != nil {
		return "", e
	}
	return prog.String(), nil
}

type oneShot struct{ s string }

func (o *oneShot) Read(p []byte) (int, error) {
	if len(o.s) == 0 {
		return 0, io.EOF
	}
	n := copy(p, o.s)
	o.s = o.s[n:]
	return n, nil
}

// C16Stats counters.
type C16Stats struct {
	Parses       int             `json:"parses"`
	Variants     int             `json:"variants"`
	Behaviours   int             `json:"layout_variants_also_compared_by_behaviour"`
	Discarded    int             `json:"baselines_discarded"`
	Calibrated   int             `json:"line_breaks_calibrated"`
	CalibRejects int             `json:"line_breaks_rejected_by_calibration"`
	Reads        int             `json:"reads"`
	ShortReads   int             `json:"short_reads"`
	OneByteReads int             `json:"one_byte_reads"`
	EOFWithData  int             `json:"data_plus_eof"`
	Straddle     int             `json:"tokens_straddling_1024_multiple"`
	ByKind       map[string]int  `json:"by_kind"`
	BySize       map[string]int  `json:"by_size_class"`
	ByPolicy     map[string]int  `json:"by_reader_policy"`
	Bytes        int64           `json:"bytes_parsed"`
	Distinct     map[string]bool `json:"-"`
	DistinctKeys []string        `json:"distinct_keys"`
	Samples      []interface{}   `json:"samples"`
}

func newC16Stats() *C16Stats {
	return &C16Stats{ByKind: map[string]int{}, BySize: map[string]int{}, ByPolicy: map[string]int{}, Distinct: map[string]bool{}}
}

func (s *C16Stats) MarshalJSON() ([]byte, error) {
	type plain C16Stats
	s.DistinctKeys = s.DistinctKeys[:0]
	for k := range s.Distinct {
		s.DistinctKeys = append(s.DistinctKeys, k)
	}
	sort.Strings(s.DistinctKeys)
	return json.Marshal((*plain)(s))
}

func (s *C16Stats) Merge(raw json.RawMessage) error {
	o := newC16Stats()
	type plain C16Stats
	if err := json.Unmarshal(raw, (*plain)(o)); err != nil {
		return err
	}
	s.Parses += o.Parses
	s.Variants += o.Variants
	s.Behaviours += o.Behaviours
	s.Discarded += o.Discarded
	s.Calibrated += o.Calibrated
	s.CalibRejects += o.CalibRejects
	s.Reads += o.Reads
	s.ShortReads += o.ShortReads
	s.OneByteReads += o.OneByteReads
	s.EOFWithData += o.EOFWithData
	s.Straddle += o.Straddle
	s.Bytes += o.Bytes
	for k, v := range o.ByKind {
		s.ByKind[k] += v
	}
	for k, v := range o.BySize {
		s.BySize[k] += v
	}
	for k, v := range o.ByPolicy {
		s.ByPolicy[k] += v
	}
	for _, k := range o.DistinctKeys {
		s.Distinct[k] = true
	}
	if len(s.Samples) < 4 {
		s.Samples = append(s.Samples, o.Samples...)
	}
	return nil
}

type c16Check struct {
	corpus []string // file contents
	names  []string
	it     *harness.Interp
}

func (c *c16Check) ID() string      { return "C16" }
func (c *c16Check) Level() string   { return "fault_enumeration" }
func (c *c16Check) Flavour() string { return "plain" }
func (c *c16Check) Runs(tier string) int {
	if tier == "thorough" {
		return 3000000
	}
	return 40000
}
func (c *c16Check) BudgetS(tier string) int {
	if tier == "thorough" {
		return 1200
	}
	return 75
}
func (c *c16Check) NewStats() Stats { return newC16Stats() }

func (c *c16Check) Init(tier string) {
	if c.corpus != nil {
		return
	}
	root := os.Getenv("VERIF_REPO_COPY")
	if root == "" {
		return
	}
	for _, dir := range []string{"tests", "example", "native"} {
		ents, _ := os.ReadDir(filepath.Join(root, dir))
		for _, e := range ents {
			if !strings.HasSuffix(e.Name(), ".pangaea") {
				continue
			}
			b, err := os.ReadFile(filepath.Join(root, dir, e.Name()))
			if err != nil || len(b) == 0 || len(b) > 6000 {
				continue
			}
			c.corpus = append(c.corpus, string(b))
			c.names = append(c.names, dir+"/"+e.Name())
		}
	}
}

func sizeClass(n int) string {
	switch {
	case n < 1024:
		return "<1K"
	case n <= 2048:
		return "1K-2K"
	case n <= 4096:
		return "2K-4K"
	case n < 32000:
		return ">4K"
	case n <= 66000:
		return "32K-64K"
	}
	return ">64K"
}

// hugeSizes: "any number", "any length" - sizes around the powers of two where buffers and
// line scanners of the usual libraries have their limits (bufio.Scanner: 64 KiB)
var hugeSizes = []int{32767, 32768, 32769, 65535, 65536, 65537, 70000, 131072, 131073, 300000, 1 << 20}

func pickSize(t *tape.Tape, from int) int {
	if t.Chance(1, 12) {
		return hugeSizes[t.Intn(len(hugeSizes))]
	}
	return padSizes[from+t.Intn(len(padSizes)-from)]
}

var padSizes = []int{0, 1, 2, 5, 40, 500, 1000, 1023, 1024, 1025, 1500, 2040, 2047, 2048, 2049, 2100, 3000, 5000}

// padding builds a run of blank lines, comment lines and blanks/tabs of roughly n bytes
// that starts and ends a line.
func padding(t *tape.Tape, n int) string {
	var sb strings.Builder
	if t.Chance(1, 4) {
		// a trailing comment on the line the break ends (any text up to the end of the line)
		unit := []string{"c", "say \"hi\" ", "see #{x} ", "it's `r` ", "} \" ", "|. ?c "}[t.Intn(6)]
		sb.WriteString(strings.Repeat(" ", t.Intn(3)) + "# " + strings.Repeat(unit, 1+t.Intn(3)))
	}
	sb.WriteString("\n")
	if n > 20000 && t.Chance(2, 3) {
		// volume on ONE physical line: a comment line or a line of blanks/tabs of n bytes
		// (a run of blanks inside a line is consumed one character at a time with a growing
		// line buffer - quadratic, 3.5 s for 100 KB on the unchanged tree; that is speed, not
		// the parse result, so such runs are kept below 70000 bytes)
		if t.Chance(1, 2) || n > 70000 {
			sb.WriteString("#" + strings.Repeat("c", n) + "\n")
		} else {
			sb.WriteString(strings.Repeat([]string{" ", "\t", " \t"}[t.Intn(3)], n) + "\n")
		}
		return sb.String()
	}
	for sb.Len() < n {
		switch t.Pick(2, 3, 2) {
		case 0:
			sb.WriteString("\n")
		case 1:
			k := 1 + t.Intn(60)
			if rem := n - sb.Len(); rem > 200 && t.Chance(1, 4) {
				k = rem - 2 // one long comment line
			}
			sb.WriteString(strings.Repeat(" ", t.Intn(3)))
			// comment text may hold anything up to the end of the line
			unit := []string{"c", "c", "c \"q\" ", "it's `r` ", "#{y} ", "\\ ?c |. ", "é日本 "}[t.Intn(7)]
			sb.WriteString("#" + strings.Repeat(unit, (k+len(unit)-1)/len(unit)) + "\n")
		default:
			sb.WriteString(strings.Repeat(" ", 1+t.Intn(4)) + strings.Repeat("\t", t.Intn(2)) + "\n")
		}
	}
	return sb.String()
}

// layoutSeeds exercise every place where the grammar allows a line break: statement
// ends, after opening brackets and commas, before closing brackets, inside parameter
// lists and multi-line chains (a line break followed by `|` and a chain).
var layoutSeeds = []string{
	"[1, 2, 3]\n  |@{|x| x * 2}\n  |$(0)+\n  |.S\n",
	"100\n  |@{\\ if .prime?}\n  |.len\n  |.even?\n",
	"o := {\n  a: 1,\n  b: [\n    2,\n    3,\n  ],\n}\no.b\n",
	"f := {|x,\n  y| x + y}\nf(1,\n  2)\n",
	"m := %{\n  1: \"a\",\n  \"k\": [\n    1,\n  ],\n}\n(1:\n  3)\n",
	"g := {|x|\n  defer x.p\n  return x if x > 1\n  x * 2\n}\ng(\n  3\n)\n",
	"x := 1 # trailing comment\n# full comment line\ny := 2 # another\n[x, # c\n  y]\n",
	"<{|i|\n  yield i if i < 3\n  recur(i + 1)\n}>.new(0)\n  |@{|v| v}\n  |~.len\n",
	"s := \"n=#{[{|x| x}\n].len} m=#{[{a: 1}\n  ].len}\"\ns\n",
	"[1,\n1.5,\n0x1F,\n?a,\n'sym,\n`raw`,\n\"a#{1}b\",\n{|| \\1}(2),\n{|| \\0}(3),\n-2,\n1e2]\n",
	"v := `first line\nsecond line\n\n  fourth`\nw := `a\nb`\n[v.len, w.len, v]\n",
	"f := {|a, k: 1, j: 2| [a, k, j]}\nf(1, k: S(1), j: S(2))\nf(2, j: S(3), k: S(4))\nf(3, k: S(5), k: S(6))\n",
	"g := {|a, k: S(1), j: S(2), k: S(3)| [a, k, j]}\ng(1, **{k: S(4)}, **{j: S(5)})\no := {m: m{|k: 1, j: 2| [k, j]}}\no.m(j: S(6), k: S(7), j: S(8))\n",
}

func init() {
	// the program that visits every lexer mode (also C19's probe) is a layout seed too
	layoutSeeds = append(layoutSeeds, richSyntax)
}

func (c *c16Check) seedProgram(t *tape.Tape) (string, string) {
	if t.Chance(1, 4) {
		i := t.Intn(len(layoutSeeds))
		return layoutSeeds[i], fmt.Sprintf("layoutseed%d", i)
	}
	if len(c.corpus) > 0 && t.Chance(1, 2) {
		i := t.Intn(len(c.corpus))
		return c.corpus[i], c.names[i]
	}
	p := gen.DefaultProfile()
	p.MaxStmts = 1 + t.Intn(5)
	p.MaxDepth = 1 + t.Intn(2)
	return gen.Generate(t, p).Source(), "generated"
}

func (c *c16Check) Run(seed, run uint64, rec []uint32, st Stats, only *Viol) []Viol {
	s := st.(*C16Stats)
	var t *tape.Tape
	if rec != nil {
		t = tape.Replay(rec)
	} else {
		t = tape.New(seed^hashID("C16"), run)
	}
	var viols []Viol
	report := func(kind, size, detail string, derived, exp, act map[string]interface{}) {
		viols = append(viols, Viol{Prop: "C16", Run: run, Seed: seed, Tape: append([]uint32(nil), t.Rec...), Engine: "simreader",
			Signature: fmt.Sprintf("C16/%s/%s/%s", kind, size, detail), Derived: derived, Expected: exp, Actual: act})
	}
	parse1 := func(src string) (string, error) {
		s.Parses++
		s.Bytes += int64(len(src))
		return parseWith(&oneShot{src})
	}
	clip := func(x string) string {
		if len(x) > 300 {
			return x[:150] + fmt.Sprintf("…(%d bytes)…", len(x)) + x[len(x)-100:]
		}
		return x
	}

	kind := []string{"chunking", "layout", "token"}[t.Pick(3, 4, 3)]
	s.ByKind[kind]++
	var variant, want string // want: expected AST string
	behaveSrc := ""
	var label string
	switch kind {
	case "chunking":
		src, name := c.seedProgram(t)
		if !strings.Contains(src, "\r") && t.Chance(1, 3) {
			// the same text with CRLF line ends (most of the repository's own .pangaea files
			// have them); a line break inside a raw string is then two bytes a read can split
			src, name = strings.ReplaceAll(src, "\n", "\r\n"), name+"+crlf"
			s.ByKind["chunking-crlf"]++
		} else if !strings.Contains(src, "\r") && !strings.Contains(src, "`") && t.Chance(1, 8) {
			// ... or with lone CRs (not for texts with raw strings, where a line break is data)
			src, name = strings.ReplaceAll(src, "\n", "\r"), name+"+cr"
			s.ByKind["chunking-cr"]++
		}
		w, err := parse1(src)
		if err != nil {
			s.Discarded++
			return nil
		}
		variant, want, label = src, w, name
	case "layout":
		src, name := c.seedProgram(t)
		if len(src) > 2000 {
			// calibration needs small programs; take a generated one instead
			p := gen.DefaultProfile()
			p.MaxStmts = 1 + t.Intn(4)
			p.MaxDepth = 1 + t.Intn(2)
			src, name = gen.Generate(t, p).Source(), "generated"
		}
		base, err := parse1(src)
		if err != nil {
			s.Discarded++
			return nil
		}
		if name == "generated" || strings.HasPrefix(name, "layoutseed") {
			behaveSrc = src
		}
		// candidate insertion points: start of program, every "\n", and right after an
		// opening bracket or a comma (the grammar allows one line break there); whether a
		// candidate really is a grammar line break is decided by the calibration below
		var pts, brk []int
		for i := 0; i < len(src); i++ {
			switch src[i] {
			case '\n':
				pts = append(pts, i)
			case '[', '(', '{', ',':
				brk = append(brk, i)
			}
		}
		atStart := t.Chance(1, 6) || len(pts) == 0
		afterBracket := !atStart && len(brk) > 0 && t.Chance(1, 3)
		pos := -1
		if afterBracket {
			pos = brk[t.Intn(len(brk))]
			s.ByKind["layout-after-bracket-or-comma"]++
		} else if !atStart {
			pos = pts[t.Intn(len(pts))]
		}
		apply := func(pad string) string {
			if atStart {
				return strings.TrimPrefix(pad, "\n") + src
			}
			if afterBracket {
				return src[:pos+1] + pad + src[pos+1:]
			}
			return src[:pos] + pad + src[pos+1:]
		}
		// calibration with small layouts: the position must be a grammar line break
		for _, small := range []string{"\n\n", "\n# c\n", "\n \t\n", "\n  # c c\n\n"} {
			got, err := parse1(apply(small))
			if err != nil || got != base {
				s.CalibRejects++
				return nil
			}
		}
		s.Calibrated++
		n := pickSize(t, 0)
		pad := padding(t, n)
		if t.Chance(1, 5) {
			// ... and blanks or tabs in front of what follows the break ("surrounding spaces or
			// tabs"), also far beyond the usual line widths
			k := []int{1, 2, 7, 100, 1000, 4095, 4096, 4097, 4200, 8200, 12300, 20000}[t.Intn(12)]
			if t.Chance(1, 2) {
				// runs of blanks and runs of tabs alternating (2 to 15 runs)
				var sb strings.Builder
				for r, runs := 0, 2+t.Intn(14); r < runs; r++ {
					sb.WriteString(strings.Repeat([]string{" ", "\t"}[r%2], 1+t.Intn(3)))
				}
				pad += sb.String()
			} else {
				pad += strings.Repeat([]string{" ", "\t"}[t.Intn(2)], k)
			}
			s.ByKind["layout-indent-after-pad"]++
		}
		// the grammar takes LF, CRLF and a lone CR as line breaks alike
		switch t.Pick(6, 1, 1) {
		case 1:
			pad = strings.ReplaceAll(pad, "\n", "\r\n")
			s.ByKind["layout-crlf-pad"]++
		case 2:
			pad = strings.ReplaceAll(pad, "\n", "\r")
			s.ByKind["layout-cr-pad"]++
		}
		variant, want = apply(pad), base
		label = fmt.Sprintf("%s pad=%d at=%d", name, len(pad), pos)
		s.BySize["pad"+sizeClass(len(pad))]++
	case "token":
		n := pickSize(t, 2)
		unit := "q"
		unitKind := t.Pick(4, 1, 1, 1, 1)
		// optional filler so that the token straddles a multiple of 1024
		fill := ""
		if t.Chance(1, 2) {
			off := []int{1000, 1020, 2040, 2046, 3000}[t.Intn(5)]
			fill = "x := 1\n" + strings.Repeat("# "+strings.Repeat("f", 76)+"\n", off/79)
			s.Straddle++
		}
		var tmpl, tokKind string
		tk := t.Pick(2, 2, 2, 2, 1, 1, 2)
		if tk != 2 && tk != 5 {
			// strings, raw strings, comments and embedded pieces may hold any text:
			// multi-byte characters (cut points inside a rune), blanks, a lone `#`
			unit = []string{"q", "é", "日本", "q q", "q#"}[unitKind]
			if tk == 3 && t.Chance(1, 2) {
				unit = []string{"q\"q", "q`q", "#{q", "'q ?q"}[t.Intn(4)] // comments may contain quotes and `#{`
			}
		}
		long := strings.Repeat(unit, (n+len(unit)-1)/len(unit))
		switch tk {
		case 0:
			tmpl, tokKind = "v := \"@\"\nv\n", "dqstr"
		case 1:
			tmpl, tokKind = "v := `@`\nv\n", "rawstr"
		case 2:
			tmpl, tokKind = "a@ := 1\na@\n", "ident"
		case 3:
			tmpl, tokKind = "1 # @\n2\n", "comment"
		case 4:
			tmpl, tokKind = "v := \"a#{1}@#{2}b\"\n", "embstr"
		case 6:
			// a long token in front of keyword arguments that continue on the next line (what comes
			// after a long token sits at a large column)
			tmpl, tokKind = "f := {|a, k: 1, j: 2| [k, j]}\nf(\"@\", k: 1, j: 2,\n  k: 3, j: 4)\n", "dqstr-then-kwargs"
		default:
			tmpl, tokKind = "v := '@\n", "symbol"
		}
		// the short version holds the same kind of text (same unit), so that only the
		// LENGTH differs between the baseline and the variant
		shortTok := strings.Repeat(unit, 3)
		short := fill + strings.Replace(tmpl, "@", shortTok, -1)
		w, err := parse1(short)
		if err != nil || (tokKind != "comment" && !strings.Contains(w, shortTok)) {
			s.Discarded++
			return nil
		}
		want = strings.Replace(w, shortTok, long, -1)
		variant = fill + strings.Replace(tmpl, "@", long, -1)
		label = fmt.Sprintf("%s len=%d fill=%d unit=%q", tokKind, len(long), len(fill), unit)
		s.BySize["tok"+sizeClass(n)]++
	}
	if os.Getenv("VERIF_C16_DEBUG") != "" {
		fmt.Fprintf(os.Stderr, "C16 run %d: %s %s (%d bytes)\n", run, kind, label, len(variant))
		os.WriteFile(os.Getenv("VERIF_C16_DEBUG"), []byte(variant), 0o644)
	}
	s.Variants++
	s.BySize["total"+sizeClass(len(variant))]++
	s.Distinct[kind+"|"+label] = true

	// (a) the variant read in one Read
	got, err := parse1(variant)
	if len(s.Samples) < 3 {
		s.Samples = append(s.Samples, map[string]interface{}{"kind": kind, "case": label, "bytes": len(variant), "source_head": clip(variant)})
	}
	if kind != "chunking" && (err != nil || got != want) {
		act := map[string]interface{}{"ast": clip(got)}
		if err != nil {
			act["error"] = clip(err.Error())
		}
		report(kind, "total"+sizeClass(len(variant)), strings.Fields(label)[0]+"/oneshot",
			map[string]interface{}{"case": label, "source": clip(variant), "bytes": len(variant)},
			map[string]interface{}{"ast": clip(want)}, act)
		return viols
	}
	// (a') the same program behaves the same: positions recorded by the lexer must not
	// leak into evaluation (order of effects, which of two repeated keywords binds, ...)
	if behaveSrc != "" && len(variant) < 300000 {
		b0, b1 := c.behaviour(behaveSrc), c.behaviour(variant)
		s.Behaviours++
		if b0 != b1 {
			report("layout", "total"+sizeClass(len(variant)), strings.Fields(label)[0]+"/behaviour",
				map[string]interface{}{"case": label, "source": clip(variant), "bytes": len(variant), "original": clip(behaveSrc)},
				map[string]interface{}{"behaviour_of_original": clip(b0)}, map[string]interface{}{"behaviour_with_layout": clip(b1)})
			return viols
		}
	}
	// (b) the same bytes under tape-chosen reader schedules
	nsched := 2
	for i := 0; i < nsched; i++ {
		rd := newSimReader(t, variant)
		s.Parses++
		s.Bytes += int64(len(variant))
		g2, e2 := parseWith(rd)
		s.Reads += rd.Reads
		s.ShortReads += rd.Short
		s.OneByteReads += rd.OneByte
		if rd.eofWith {
			s.EOFWithData++
		}
		s.ByPolicy[rd.describe()]++
		if e2 != nil || g2 != want {
			act := map[string]interface{}{"ast": clip(g2)}
			if e2 != nil {
				act["error"] = clip(e2.Error())
			}
			report("chunking", "total"+sizeClass(len(variant)), rd.policy,
				map[string]interface{}{"case": label, "source": clip(variant), "bytes": len(variant), "reader": rd.describe(), "chunks_head": rd.sched},
				map[string]interface{}{"ast": clip(want)}, act)
			break
		}
	}
	return viols
}

// behaviour evaluates a source text with the simulated callee bound and renders what can
// be observed: callee invocations in order, output, and the value or error (kind and message;
// stack traces carry line numbers, which layout changes by design).
func (c *c16Check) behaviour(src string) string {
	if c.it == nil {
		c.it = harness.NewInterp()
	}
	prog, err := harness.Parse(src)
	if err != nil {
		return "PARSE " + err.Error()
	}
	r := c.it.Run(prog, &harness.Callee{Limit: 20000})
	out := "trace=" + fmt.Sprint(harness.TraceIDs(r.Trace)) + " stdout=" + r.Stdout
	switch {
	case r.Panic != "":
		return out + " PANIC " + r.Panic
	case r.Err != nil:
		return out + " Raise(" + r.Err.Kind() + ": " + r.Err.Msg + ")"
	case r.Obj != nil:
		return out + " Value " + r.Obj.Inspect()
	}
	return out
}

func (c *c16Check) Evidence(st Stats, tier string) (map[string]interface{}, []string) {
	s := st.(*C16Stats)
	cov := map[string]interface{}{
		"evaluations":         s.Parses,
		"distinct_nontrivial": len(s.Distinct),
		"rule":                "one case = (seed program, transformation {layout padding at a calibrated line break | stretched token | none}, size, reader schedule); every parse goes through the real parser.Parse on a SimReader whose chunk sizes come from the tape; distinct_nontrivial counts distinct (kind, seed, size/position) variants that reached the oracle",
		"samples":             s.Samples,
		"variants":            s.Variants,
		"layout_variants_also_compared_by_behaviour": s.Behaviours,
		"baselines_discarded":                        s.Discarded,
		"line_breaks_calibrated":                     s.Calibrated,
		"line_breaks_rejected_by_calibration":        s.CalibRejects,
		"fault_kinds_fired":                          map[string]int{"short_read": s.ShortReads, "one_byte_read": s.OneByteReads, "data_plus_eof_runs": s.EOFWithData, "token_straddling_boundary": s.Straddle},
		"reads":                                      s.Reads,
		"by_kind":                                    s.ByKind,
		"by_size_class":                              s.BySize,
		"by_reader_policy":                           s.ByPolicy,
		"bytes_parsed":                               s.Bytes,
		"simulated_time":                             "none (no clock in the parser); steps = Read calls",
		"real_vs_stub":                               map[string]string{"real": "third_party/simplexer lexer, parser (goyacc), ast printer", "stub": "io.Reader delivering the source (SimReader)"},
	}
	if len(s.Samples) == 0 {
		cov["samples"] = []interface{}{"(none)"}
	}
	return cov, []string{
		"a position counts as a grammar line break only if four small layouts there leave the AST unchanged on a small program (calibration)",
		"baselines that do not parse in one read are discarded, not judged",
		"the reader never returns (0, nil) and no error other than io.EOF",
	}
}

func init() {
	register("C16", func() Check { return &c16Check{} })
}
