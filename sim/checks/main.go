package checks

import (
	"fmt"
	"os"
	"strings"

	"verifsim/harness"
)

// Main dispatches worker subcommands. Exit codes: 0 held, 1 violation, 2 infrastructure.
func Main(cmd string, args []string) int {
	switch cmd {
	case "probe":
		return probe(args)
	case "httpprobe":
		it := harness.NewInterp()
		h, err := newHTTPHandler(it)
		if err != nil {
			fmt.Println("ERR", err)
			return 2
		}
		for _, a := range args {
			m, tgt, body := "GET", a, ""
			if strings.HasPrefix(a, "POST ") {
				parts := strings.SplitN(a, " ", 3)
				m, tgt = "POST", parts[1]
				if len(parts) > 2 {
					body = parts[2]
				}
			}
			fmt.Println(a, "=>", serveOnce(h, httpReq{Method: m, Target: tgt, Body: body}))
		}
		return 0
	case "work":
		return work(args)
	case "drive":
		return drive(args)
	case "replay":
		return replay(args)
	case "schedrun":
		return schedChild(args)
	case "c19fresh":
		return c19Fresh(args)
	case "c19hist":
		return c19Hist(args)
	}
	fmt.Fprintln(os.Stderr, "unknown subcommand", cmd)
	return 2
}

func probe(args []string) int {
	it := harness.NewInterp()
	for _, src := range args {
		if strings.HasPrefix(src, "@") {
			b, err := os.ReadFile(src[1:])
			if err != nil {
				fmt.Println(err)
				return 2
			}
			src = string(b)
		}
		prog, err := harness.Parse(src)
		if err != nil {
			fmt.Printf("PARSE ERROR: %v\n", err)
			continue
		}
		c := &harness.Callee{}
		r := it.Run(prog, c)
		fmt.Printf("src: %s\n  trace=%v\n  stdout=%q\n", src, harness.TraceIDs(r.Trace), r.Stdout)
		if r.Panic != "" {
			fmt.Printf("  PANIC %s\n", r.Panic)
		} else if r.Err != nil {
			fmt.Printf("  ERR %s\n", r.Err.Inspect())
		} else {
			fmt.Printf("  VAL(%s) %s\n", r.TypeName, r.Obj.Inspect())
		}
	}
	return 0
}
