package checks

import (
	"encoding/json"
	"fmt"
	"os"
	"sort"

	"verifsim/gen"
	"verifsim/harness"
	"verifsim/tape"
)

func (s *CFStats) Merge(raw json.RawMessage) error {
	o := newCFStats()
	var aux struct {
		*CFStats
		DistinctKeys []string      `json:"distinct_keys"`
		Samples      []interface{} `json:"samples"`
	}
	aux.CFStats = o
	if err := json.Unmarshal(raw, &aux); err != nil {
		return err
	}
	for _, k := range aux.DistinctKeys {
		o.Distinct[k] = true
	}
	o.Sample = aux.Samples
	s.merge(o)
	return nil
}

func (s *CFStats) MarshalJSON() ([]byte, error) {
	type plain CFStats
	keys := make([]string, 0, len(s.Distinct))
	for k := range s.Distinct {
		keys = append(keys, k)
	}
	sort.Strings(keys)
	return json.Marshal(struct {
		*plain
		DistinctKeys []string      `json:"distinct_keys"`
		Samples      []interface{} `json:"samples"`
	}{(*plain)(s), keys, s.Sample})
}

type cfCheck struct {
	id     string
	cfg    CFConfig
	runs   map[string]int
	budget map[string]int
	it     *harness.Interp
	rule   string
	assume []string
}

func (c *cfCheck) ID() string              { return c.id }
func (c *cfCheck) Level() string           { return "fault_enumeration" }
func (c *cfCheck) Flavour() string         { return "plain" }
func (c *cfCheck) Runs(tier string) int    { return c.runs[tier] }
func (c *cfCheck) BudgetS(tier string) int { return c.budget[tier] }
func (c *cfCheck) NewStats() Stats         { return newCFStats() }
func (c *cfCheck) Init(tier string) {
	if c.it == nil {
		c.it = harness.NewInterp()
	}
	// two source files for relative imports live in the scratch directory, which becomes the
	// working directory (many worker processes share it: the files appear atomically)
	if dir := os.Getenv("VERIF_SCRATCH"); dir != "" && os.Chdir(dir) == nil {
		for name, text := range map[string]string{
			"cfbad.pangaea":  "cfBefore := 1\n(cfBefore // 0)\ncfAfter := 2\n",
			"cfgood.pangaea": "cfVal := 5\n",
		} {
			if _, err := os.Stat(name); err != nil {
				tmp := fmt.Sprintf("%s.%d.tmp", name, os.Getpid())
				if os.WriteFile(tmp, []byte(text), 0o644) == nil {
					os.Rename(tmp, name)
				}
			}
		}
		gen.ImportsAvailable = true
	}
	if tier == "thorough" {
		c.cfg.KindsPerPos = 0
	}
}

func (c *cfCheck) Run(seed, run uint64, rec []uint32, st Stats, only *Viol) []Viol {
	var t *tape.Tape
	if rec != nil {
		t = tape.Replay(rec)
	} else {
		t = tape.New(seed^hashID(c.id), run)
	}
	k, kind := -1, ""
	if only != nil {
		if p, ok := only.Derived["plan"].(map[string]interface{}); ok {
			if at, ok := p["at"].(float64); ok {
				k = int(at)
			}
			kind, _ = p["raise"].(string)
		}
	}
	return CFRun(c.it, c.cfg, t, seed, run, st.(*CFStats), k, kind)
}

func hashID(s string) uint64 {
	var h uint64 = 1469598103934665603
	for i := 0; i < len(s); i++ {
		h ^= uint64(s[i])
		h *= 1099511628211
	}
	return h
}

func (c *cfCheck) Evidence(st Stats, tier string) (map[string]interface{}, []string) {
	s := st.(*CFStats)
	fired := 0
	for _, v := range s.FaultsFired {
		fired += v
	}
	cov := map[string]interface{}{
		"evaluations":                                 s.Evals,
		"distinct_nontrivial":                         len(s.Distinct),
		"rule":                                        c.rule,
		"samples":                                     s.Sample,
		"programs":                                    s.Programs,
		"parse_rejects":                               s.ParseRejects,
		"model_unsure_skipped":                        s.ModelUnsure,
		"clean_divergence_skipped":                    s.CleanSkipped,
		"faults_fired_total":                          fired,
		"faults_fired_by_kind":                        s.FaultsFired,
		"faults_fired_by_slot_role":                   s.FaultRoles,
		"faults_absorbed_by_handler":                  s.Absorbed,
		"faults_inside_deferred_expr":                 s.InDefer,
		"deferred_slot_invocations_after_fault":       s.DefersRun,
		"slot_invocations":                            s.Slots,
		"constructs_generated":                        s.Constructs,
		"simulated_steps":                             s.Slots,
		"simulated_time":                              "none: the system has no clock or timers; steps are simulated-callee invocations",
		"exhaustive_over_fault_positions_per_program": c.cfg.Faults,
		"real_vs_stub":                                realVsStub,
	}
	if len(s.Sample) == 0 {
		cov["samples"] = []interface{}{"(no program was generated)"}
	}
	return cov, c.assume
}

var realVsStub = map[string]interface{}{
	"real": "lexer, parser, evaluator, object, props, di, native/*.pangaea (whole interpreter, built from /repo's working tree)",
	"stub": "callee `S` (simulated: returns planned value or raises planned error), stdout writer (in-memory), stdin (empty reader)",
}

func stdProfile(t *tape.Tape) gen.Profile {
	p := gen.DefaultProfile()
	p.MaxStmts = 2 + t.Intn(6)
	p.MaxDepth = 1 + t.Intn(3)
	p.JumpW = []int{0, 2, 4, 6}[t.Intn(4)]
	p.Thoughtful = t.Chance(2, 3)
	p.ChainW = []int{0, 2, 4, 8}[t.Intn(4)]
	p.LitW = []int{0, 2, 4, 8}[t.Intn(4)]
	p.TopDefer = t.Chance(1, 2)
	p.Natural = t.Chance(1, 3)
	p.MultiKw = t.Chance(1, 2)
	return p
}

func deferProfile(t *tape.Tape) gen.Profile {
	p := gen.DefaultProfile()
	p.MaxStmts = 2 + t.Intn(5)
	p.MaxDepth = 1 + t.Intn(2)
	p.JumpW = 5 + t.Intn(4)
	p.Thoughtful = t.Chance(1, 4)
	p.ChainW = []int{0, 1, 2}[t.Intn(3)]
	p.LitW = []int{0, 0, 1}[t.Intn(3)]
	p.TopDefer = true
	p.Natural = t.Chance(1, 4)
	return p
}

func init() {
	register("C07", func() Check {
		return &cfCheck{id: "C07",
			cfg:    CFConfig{Prop: "C07", JudgeClean: false, JudgeCleanRaise: true, Faults: true, KindsPerPos: 2, Profile: stdProfile},
			runs:   map[string]int{"quick": 40000, "thorough": 4000000},
			budget: map[string]int{"quick": 60, "thorough": 1500},
			rule:   "one case = (generated program, dynamic slot position k, error kind): the k-th invocation of the simulated callee raises; every position of the fault-free trace is enumerated; distinct_nontrivial counts distinct (program skeleton with slot ids erased, trace length) pairs whose model prediction was decisive",
			assume: []string{
				"the control-flow reference model (sim/gen/model.go) encodes only what C07's statement fixes; positions in receiver/arguments of a thoughtful chain are not judged",
				"a simulated callee that returns *object.PanErr is indistinguishable from a user function that raises",
				"programs are sampled; fault positions within a program are enumerated completely",
			}}
	})
	register("C15", func() Check {
		return &cfCheck{id: "C15",
			cfg:    CFConfig{Prop: "C15", JudgeClean: true, Faults: true, KindsPerPos: 1, Profile: deferProfile},
			runs:   map[string]int{"quick": 40000, "thorough": 4000000},
			budget: map[string]int{"quick": 60, "thorough": 1500},
			rule:   "one case = (generated body layout with plain/guarded defers, return, raise, nested calls; crash point k): fault-free run plus a raise injected at every dynamic slot position (body, guard, nested call, deferred expression); distinct_nontrivial counts distinct (program skeleton, trace length) pairs",
			assume: []string{
				"the defer reference model: reached defers run once each in reach order after the body; a raising defer replaces the outcome and stops the rest",
				"the value of a body whose last statement is a defer is left unspecified",
			}}
	})
	_ = fmt.Sprint
}
