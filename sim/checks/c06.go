//go:build verifseam

package checks

import (
	"encoding/json"
	"fmt"
	"os"
	"sort"
	"strings"

	"github.com/Syuparn/pangaea/ast"
	"github.com/Syuparn/pangaea/evaluator"
	"github.com/Syuparn/pangaea/object"
	seam "github.com/Syuparn/pangaea/verifseam"

	"verifsim/harness"
	"verifsim/tape"
)

// C06: values are immutable.  HIST engine: a session keeps a pool of named values;
// every step applies a tape-chosen operation (any property found on the receiver's
// prototype chain, operators, indexing, literals embedding pool values, chains with a
// simulated callee that may raise at element k) to pool values; before and after every
// step a deep fingerprint of every pooled value is taken through Go reflection.
// Oracle: no pre-existing fingerprint ever changes (also when the operation is cut
// short by an injected failure).

var c06Blacklist = map[string]bool{
	"serve": true, "import": true, "invite!": true, "read": true, "argv": true, "_init": true,
	"next":    true, // iterators are mutable by definition
	"request": true, "serveBackground": true, "stop": true,
}

// c06Observe adds what the value SHOWS through the language itself (length, first and last
// elements, its text) to the structural fingerprint: "contains" and "prints" are also what
// indexing and S answer, wherever the interpreter keeps the data it answers from (a struct
// field today, a cache tomorrow). Strings and arrays only, outer levels only.
var c06ObserveProg ast.Node
var c06ObserveGlobal *object.Env
var c06ObserveSym object.SymHash

// c06InitObserve must run before the FIRST fingerprint of a process is taken (a fingerprint
// taken without the observation part never equals one taken with it).
func c06InitObserve(it *harness.Interp) {
	if c06ObserveProg != nil {
		return
	}
	if prog, err := harness.Parse("[obsv__.len, obsv__[0], obsv__[1], obsv__[-1], obsv__[1:3], obsv__.S]"); err == nil {
		c06ObserveGlobal, c06ObserveSym, c06ObserveProg = it.Global, object.GetSymHash("obsv__"), prog
	}
}

func c06Observe(o object.PanObject, depth int) string {
	if c06ObserveProg == nil || depth > 1 {
		return ""
	}
	if tooDeep(o, 12) {
		// (a value that has come to contain itself would send the interpreter's own
		// Inspect into unbounded recursion - a fatal stack overflow, not a panic)
		return "|shows<nested deeper than 12 levels>"
	}
	env := object.NewEnclosedEnv(c06ObserveGlobal)
	env.Set(c06ObserveSym, o)
	var out string
	func() {
		defer func() {
			if r := recover(); r != nil {
				if r == seam.FuelExhausted {
					panic(r)
				}
				out = fmt.Sprint("observe-panic ", r)
			}
		}()
		out = evaluator.Eval(c06ObserveProg, env).Inspect()
	}()
	return "|shows" + out
}

// fingerprint renders what a value "prints, contains, equals or inherits".
func c06Fingerprint(o object.PanObject, builtins map[object.PanObject]string, depth int) string {
	if o == nil {
		return "<go nil>"
	}
	if name, ok := builtins[o]; ok {
		return "<builtin " + name + ">"
	}
	if depth > 10 {
		return "<deep>"
	}
	proto := "<noproto>"
	func() {
		defer func() { recover() }()
		if p := o.Proto(); p != nil {
			if name, ok := builtins[p]; ok {
				proto = name
			} else {
				proto = fmt.Sprintf("%p", p)
			}
		}
	}()
	switch v := o.(type) {
	case *object.PanInt:
		return fmt.Sprintf("int(%d)^%s", v.Value, proto)
	case *object.PanFloat:
		return fmt.Sprintf("float(%v)^%s", v.Value, proto)
	case *object.PanStr:
		return fmt.Sprintf("str(%q,%v,%v)^%s%s", v.Value, v.IsPublic, v.IsSym, proto, c06Observe(o, depth))
	case *object.PanBool:
		return fmt.Sprintf("bool(%v)", v.Value)
	case *object.PanNil:
		return "nil^" + proto
	case *object.PanArr:
		parts := make([]string, len(v.Elems))
		for i, e := range v.Elems {
			parts[i] = c06Fingerprint(e, builtins, depth+1)
		}
		return "arr[" + strings.Join(parts, ",") + "]^" + proto + c06Observe(o, depth)
	case *object.PanObj:
		if v.Pairs == nil {
			return "obj<nil pairs>^" + proto
		}
		type kv struct{ k, v string }
		var kvs []kv
		for h, p := range *v.Pairs {
			kvs = append(kvs, kv{fmt.Sprintf("%d:%s", h, c06Fingerprint(p.Key, builtins, depth+1)), c06Fingerprint(p.Value, builtins, depth+1)})
		}
		sort.Slice(kvs, func(i, j int) bool { return kvs[i].k < kvs[j].k })
		var sb strings.Builder
		sb.WriteString("obj{")
		for _, x := range kvs {
			sb.WriteString(x.k + "=" + x.v + ";")
		}
		sb.WriteString("}keys")
		if v.Keys != nil {
			sb.WriteString(fmt.Sprint(*v.Keys))
		}
		if v.PrivateKeys != nil {
			sb.WriteString(fmt.Sprint(*v.PrivateKeys))
		}
		sb.WriteString("^" + proto)
		return sb.String()
	case *object.PanMap:
		var sb strings.Builder
		sb.WriteString("map{")
		if v.HashKeys != nil && v.Pairs != nil {
			for _, hk := range *v.HashKeys {
				p := (*v.Pairs)[hk]
				sb.WriteString(fmt.Sprintf("%v:%s=%s;", hk, c06Fingerprint(p.Key, builtins, depth+1), c06Fingerprint(p.Value, builtins, depth+1)))
			}
			sb.WriteString(fmt.Sprintf("#%d", len(*v.Pairs)))
		}
		if v.NonHashablePairs != nil {
			for _, p := range *v.NonHashablePairs {
				sb.WriteString(fmt.Sprintf("nh:%s=%s;", c06Fingerprint(p.Key, builtins, depth+1), c06Fingerprint(p.Value, builtins, depth+1)))
			}
		}
		return sb.String() + "}^" + proto
	case *object.PanRange:
		return fmt.Sprintf("range(%s:%s:%s)^%s", c06Fingerprint(v.Start, builtins, depth+1), c06Fingerprint(v.Stop, builtins, depth+1), c06Fingerprint(v.Step, builtins, depth+1), proto)
	case *object.PanFunc:
		// a function also "contains" its parameter names and keyword defaults
		args, kwargs := "?", "?"
		func() {
			defer func() { recover() }()
			args, kwargs = v.FuncWrapper.Args().Inspect(), v.FuncWrapper.Kwargs().Inspect()
		}()
		return fmt.Sprintf("func(%d,%s,args=%s,kwargs=%s)", v.FuncKind, v.Inspect(), args, kwargs)
	case *object.PanErrWrapper:
		// a caught error is a value: what it reports when raised again (its recorded
		// frames) belongs to what it contains
		return fmt.Sprintf("errwrap(%s,%q,trace=%q)^%s", v.Kind(), v.Msg, v.StackTrace, proto)
	case *object.PanErr:
		return fmt.Sprintf("err(%s,%q)^%s", v.Kind(), v.Msg, proto)
	case *object.PanBuiltIn:
		return fmt.Sprintf("builtin(%p)", v)
	}
	return fmt.Sprintf("%T(%s)", o, o.Inspect())
}

type C06Stats struct {
	Histories    int            `json:"histories"`
	Steps        int            `json:"steps"`
	Fingerprints int64          `json:"fingerprints_taken"`
	OpKinds      map[string]int `json:"op_kinds"`
	Props        map[string]int `json:"-"`
	PropKeys     map[string]int `json:"receiver_prop_pairs"`
	Errors       int            `json:"steps_ending_in_error"`
	Aborted      int            `json:"steps_aborted_by_injected_callee_failure"`
	Fuel         int            `json:"steps_cut_by_fuel"`
	Pooled       int            `json:"values_pooled"`
	Witnessed    int            `json:"values_handed_to_callee_and_watched"`
	TypesSeen    map[string]int `json:"pooled_value_types"`
	Samples      []interface{}  `json:"samples"`
}

func newC06Stats() *C06Stats {
	return &C06Stats{OpKinds: map[string]int{}, PropKeys: map[string]int{}, TypesSeen: map[string]int{}}
}
func (s *C06Stats) Merge(raw json.RawMessage) error {
	o := newC06Stats()
	if err := json.Unmarshal(raw, o); err != nil {
		return err
	}
	s.Histories += o.Histories
	s.Steps += o.Steps
	s.Fingerprints += o.Fingerprints
	s.Errors += o.Errors
	s.Aborted += o.Aborted
	s.Fuel += o.Fuel
	s.Pooled += o.Pooled
	s.Witnessed += o.Witnessed
	for k, v := range o.OpKinds {
		s.OpKinds[k] += v
	}
	for k, v := range o.PropKeys {
		s.PropKeys[k] += v
	}
	for k, v := range o.TypesSeen {
		s.TypesSeen[k] += v
	}
	if len(s.Samples) < 3 {
		s.Samples = append(s.Samples, o.Samples...)
	}
	return nil
}

type c06Check struct {
	// evalHook, when set, evaluates a parsed line instead of it.RunIn (used by the
	// scheduler workloads, which must not share harness state between tasks)
	evalHook func(prog ast.Node, c *harness.Callee, env *object.Env) harness.Result
	// sharedEnv/sharedNames: values created before the run in a scope that several
	// tasks share (C06 face 3): they join the pool of every task under their own names
	sharedEnv   *object.Env
	sharedNames []string
	it          *harness.Interp
	builtins    map[object.PanObject]string
	propsOf     map[object.PanObject][]string // per builtin prototype: own property names
	tier        string
}

func (c *c06Check) ID() string      { return "C06" }
func (c *c06Check) Level() string   { return "exploration" }
func (c *c06Check) Flavour() string { return "seam" }
func (c *c06Check) Runs(tier string) int {
	if tier == "thorough" {
		return 1000000
	}
	return 16000
}
func (c *c06Check) BudgetS(tier string) int {
	if tier == "thorough" {
		return 1500
	}
	return 60
}
func (c *c06Check) NewStats() Stats { return newC06Stats() }
func (c *c06Check) Init(tier string) {
	c.tier = tier
	if c.it != nil {
		return
	}
	c.it = harness.NewInterp()
	c.initTables(c.it)
}

// initTables discovers the built-in prototypes and their property names by reflection.
func (c *c06Check) initTables(it *harness.Interp) {
	c.it = it
	c06InitObserve(it)
	c.builtins = map[object.PanObject]string{}
	c.propsOf = map[object.PanObject][]string{}
	hs := make([]uint64, 0, len(c.it.Global.Store))
	for h := range c.it.Global.Store {
		hs = append(hs, h)
	}
	sort.Slice(hs, func(i, j int) bool { return hs[i] < hs[j] })
	for _, h := range hs {
		o := c.it.Global.Store[h]
		s, ok := object.SymHash2Str(h)
		if !ok {
			continue
		}
		name := s.(*object.PanStr).Value
		if po, ok := o.(*object.PanObj); ok && po.Pairs != nil {
			if _, dup := c.builtins[o]; !dup {
				c.builtins[o] = name
			}
			var names []string
			for _, p := range *po.Pairs {
				if ks, ok := p.Key.(*object.PanStr); ok && !c06Blacklist[ks.Value] {
					names = append(names, ks.Value)
				}
			}
			sort.Strings(names)
			c.propsOf[o] = names
		}
	}
}

// propsFor lists property names reachable from the value's prototype chain.
func (c *c06Check) propsFor(o object.PanObject) []string {
	var out []string
	seen := map[string]bool{}
	for p, n := o.Proto(), 0; p != nil && n < 12; p, n = p.Proto(), n+1 {
		for _, name := range c.propsOf[p] {
			if !seen[name] {
				seen[name] = true
				out = append(out, name)
			}
		}
	}
	return out
}

func typeTag(o object.PanObject) string {
	switch v := o.(type) {
	case *object.PanInt:
		return "int"
	case *object.PanFloat:
		return "float"
	case *object.PanStr:
		return "str"
	case *object.PanArr:
		return "arr"
	case *object.PanObj:
		return "obj"
	case *object.PanMap:
		return "map"
	case *object.PanRange:
		return "range"
	case *object.PanFunc:
		if v.FuncKind == object.IterFunc {
			return "iter"
		}
		return "func"
	case *object.PanNil:
		return "nil"
	case *object.PanBool:
		return "bool"
	case *object.PanErrWrapper:
		return "errwrap"
	case *object.PanBuiltInIter:
		return "iter"
	case *object.PanBuiltIn:
		return "builtin"
	}
	return "other"
}

var c06Infix = []string{"+", "-", "*", "/", "//", "%", "**", "==", "!=", "<", "<=", ">", ">=", "<=>", "<<", ">>", "/&", "/|", "/^", "&&", "||", "===", "!=="}

var c06Seeds = []string{
	"[1, 2, 3]", "[[1], [2, 3]]", "[]", "\"abc\"", "\"\"", "'sym", "5", "-3", "0", "2.5", "{a: 1, b: [2]}", "{}", "{_p: 1, q: {r: 2}}",
	"%{1: 2, \"k\": [3]}", "%{}", "%{[1]: 2}", "%{[1]: \"a\", [2]: \"b\", [3]: \"c\"}", "%{{a: 1}: 1, [2]: 2, nil: 3, [4, 5]: 4}", "%{3: 1, 1: 2, [0]: 3, 2: 4}",
	"[[1, \"a\"], [[2], \"b\"], [[2], \"c\"]].M", "{c: 3, a: 1, b: 2, _z: 0}", "{|n| {|x, k: n| [x, k]}}", "{|n| {|x, k: n| [x, k]}}(1)", "(1:4)", "(5:1:-2)", "(?a:?d)", "(0:3:true)", "(false:2)", "(1.bear({z: 1}):3)", "(0:2.bear({w: 5}):1)", "nil", "true", "false", "{|x| x}", "{|a, k: 1| [a, k]}",
	"[1, nil, 2]", "[3, 1, 2]", "\"a,b,c\"", "1.try", "1.try./(0)", "{a: 1}.bear({b: 2})", "Int.bear({twice: m{self * 2}}).new(4)", "Str.bear.new(\"sub\")",
	"[\"x\", \"y\"]", "{name: \"n\", call: m{1}}", "(1:3).A", "\"#{1}x\"", "1.try./(0).err", "\"a\".try.{|x| raise ValueErr.new(\"v\")}.err", "5.try.nosuch.err",
}

// hasCycle reports a container that is reachable from itself (depth-first, linear).
func hasCycle(o object.PanObject) bool {
	onPath := map[object.PanObject]bool{}
	done := map[object.PanObject]bool{}
	var visit func(o object.PanObject) bool
	visit = func(o object.PanObject) bool {
		var kids []object.PanObject
		switch v := o.(type) {
		case *object.PanArr:
			kids = v.Elems
		case *object.PanObj:
			if v.Pairs != nil {
				for _, p := range *v.Pairs {
					kids = append(kids, p.Value)
				}
			}
		case *object.PanMap:
			if v.Pairs != nil {
				for _, p := range *v.Pairs {
					kids = append(kids, p.Key, p.Value)
				}
			}
			if v.NonHashablePairs != nil {
				for _, p := range *v.NonHashablePairs {
					kids = append(kids, p.Key, p.Value)
				}
			}
		default:
			return false
		}
		if onPath[o] {
			return true
		}
		if done[o] {
			return false
		}
		onPath[o] = true
		for _, k := range kids {
			if k != nil && visit(k) {
				return true
			}
		}
		onPath[o] = false
		done[o] = true
		return false
	}
	return visit(o)
}

// tooDeep reports nesting deeper than max (a cyclic value - possible only when
// immutability is already broken - is reported as too deep instead of recursing for ever).
func tooDeep(o object.PanObject, max int) bool {
	if max < 0 {
		return true
	}
	switch v := o.(type) {
	case *object.PanArr:
		for _, e := range v.Elems {
			if tooDeep(e, max-1) {
				return true
			}
		}
	case *object.PanObj:
		if v.Pairs != nil {
			for _, p := range *v.Pairs {
				if tooDeep(p.Value, max-1) {
					return true
				}
			}
		}
	case *object.PanMap:
		if v.Pairs != nil {
			for _, p := range *v.Pairs {
				if tooDeep(p.Key, max-1) || tooDeep(p.Value, max-1) {
					return true
				}
			}
		}
		if v.NonHashablePairs != nil {
			for _, p := range *v.NonHashablePairs {
				if tooDeep(p.Key, max-1) || tooDeep(p.Value, max-1) {
					return true
				}
			}
		}
	case *object.PanRange:
		return tooDeep(v.Start, max-1) || tooDeep(v.Stop, max-1) || tooDeep(v.Step, max-1)
	}
	return false
}

func poolable(o object.PanObject) bool {
	if tooDeep(o, 8) {
		return false
	}
	switch v := o.(type) {
	case *object.PanInt:
		return v.Value > -10000 && v.Value < 10000
	case *object.PanFloat:
		// (numbers are iterable - `n@f` visits 1..n without entering Eval, so without the step
		// budget: a huge float in the pool made one history spin for minutes)
		return v.Value > -10000 && v.Value < 10000
	case *object.PanStr:
		return len(v.Value) <= 64
	case *object.PanArr:
		if len(v.Elems) > 16 {
			return false
		}
		for _, e := range v.Elems {
			if !poolable(e) {
				return false
			}
		}
		return true
	case *object.PanRange:
		for _, b := range []object.PanObject{v.Start, v.Stop} {
			switch x := b.(type) {
			case *object.PanInt:
				if x.Value < -1000 || x.Value > 1000 {
					return false
				}
			case *object.PanStr:
			default:
				// a bound born of Int (true/false, a child made by `3.bear(...)`) counts like its int
				if iv, ok := object.TraceProtoOfInt(b); !ok || iv.Value < -1000 || iv.Value > 1000 {
					return false // open or exotic range: may be infinite
				}
			}
		}
		return true
	case *object.PanFunc:
		return v.FuncKind != object.IterFunc
	case *object.PanBuiltInIter, *object.PanErr, *object.PanIO:
		return false
	case *object.PanObj:
		if v.Pairs == nil || len(*v.Pairs) > 24 {
			return false
		}
	case *object.PanMap:
		if v.Pairs == nil || len(*v.Pairs) > 24 {
			return false
		}
	}
	return len(o.Inspect()) <= 2048
}

// c06Line is one evaluated line of a history (used by C08 to replay histories under
// other hash-map iteration orders).
type c06Line struct {
	Src    string
	Plan   map[int]harness.Ret
	Result string
}

func (c *c06Check) Run(seed, run uint64, rec []uint32, st Stats, only *Viol) []Viol {
	s := st.(*C06Stats)
	var t *tape.Tape
	if rec != nil {
		t = tape.Replay(rec)
	} else {
		t = tape.New(seed^hashID("C06"), run)
	}
	return c.runHist(seed, run, t, s, nil)
}

func (c *c06Check) runHist(seed, run uint64, t *tape.Tape, s *C06Stats, lines *[]c06Line) []Viol {
	s.Histories++
	env := object.NewEnclosedEnv(c.it.Global)
	if c.sharedEnv != nil {
		env = object.NewEnclosedEnv(c.sharedEnv)
	}
	type entry struct {
		name string
		val  object.PanObject
		fp   string
		src  string
	}
	var pool []entry
	var log []string
	nslot := 0
	// values the simulated callee was handed (receiver/argument/`\0`/`\_` of the function
	// that called it) with their fingerprint at that moment: they exist from then on, so
	// they are under the oracle like pooled values, also while the same step continues
	var seen []entry
	var seenChanged *entry
	var seenNow string
	checkSeen := func() {
		for i := range seen {
			if seenChanged != nil {
				return
			}
			if now := c06Fingerprint(seen[i].val, c.builtins, 0); now != seen[i].fp {
				e := seen[i]
				seenChanged, seenNow = &e, now
			}
		}
	}
	witness := func(seq int, args []object.PanObject) {
		checkSeen()
		for _, a := range args {
			tag := typeTag(a)
			if tag == "iter" || tag == "other" || tag == "builtin" || !poolable(a) {
				continue
			}
			dup := false
			for i := range seen {
				if seen[i].val == a {
					dup = true
				}
			}
			if dup {
				continue
			}
			if len(seen) >= 48 {
				seen = seen[1:]
			}
			seen = append(seen, entry{name: fmt.Sprintf("argument of callee invocation %d", seq), val: a, fp: c06Fingerprint(a, c.builtins, 0)})
			s.Witnessed++
		}
	}
	evalLine := func(src string, plan map[int]harness.Ret) (harness.Result, bool) {
		prog, err := harness.Parse(src)
		if err != nil {
			return harness.Result{}, false
		}
		if os.Getenv("VERIF_C06_DEBUG") != "" {
			fmt.Fprintf(os.Stderr, "C06 line: %s\n", src)
		}
		cal := &harness.Callee{Plan: plan, Limit: 5000, OnCall: witness}
		if c.evalHook != nil {
			return c.evalHook(prog, cal, env), true
		}
		seam.SetFuel(200000)
		r := c.it.RunIn(prog, cal, env)
		seam.SetFuel(0)
		return r, true
	}
	add := func(src string, o object.PanObject) {
		if !poolable(o) {
			return
		}
		tag := typeTag(o)
		if tag == "iter" || tag == "other" || tag == "builtin" {
			return
		}
		if tag == "nil" || tag == "bool" {
			// scalars without structure: keep at most two of each in the pool
			n := 0
			for _, e := range pool {
				if typeTag(e.val) == tag {
					n++
				}
			}
			if n >= 2 {
				return
			}
		}
		name := fmt.Sprintf("v%d", len(pool))
		env.Set(object.GetSymHash(name), o)
		pool = append(pool, entry{name: name, val: o, src: src})
		s.Pooled++
		s.TypesSeen[tag]++
	}
	// values shared with other tasks come first
	for _, name := range c.sharedNames {
		if v, ok := c.sharedEnv.Get(object.GetSymHash(name)); ok {
			pool = append(pool, entry{name: name, val: v, src: "<shared>"})
		}
	}
	// initial pool
	nseed := 3 + t.Intn(5)
	for i := 0; i < nseed; i++ {
		src := c06Seeds[t.Intn(len(c06Seeds))]
		r, ok := evalLine(src, nil)
		if ok && r.Err == nil && r.Panic == "" && r.Obj != nil {
			before := len(pool)
			add(src, r.Obj)
			log = append(log, fmt.Sprintf("v%d := %s", len(pool)-1, src))
			if lines != nil && len(pool) > before {
				*lines = append(*lines, c06Line{Src: fmt.Sprintf("v%d := %s", before, src), Result: describeResult(r)})
			}
		}
	}
	if len(pool) == 0 {
		return nil
	}
	pick := func() entry { return pool[t.Intn(len(pool))] }
	// argOf builds one argument of the given shape (0 pool value, 1 small int, 2 string, 3 nil, 4 [pool value], 5 [small int])
	argShapes := []int{}
	replay := []int(nil) // shapes to reuse when a step repeats the previous operation
	argOf := func(shape int) string {
		switch shape {
		case 0:
			return pick().name
		case 1:
			return fmt.Sprint(t.Intn(7) - 2)
		case 2:
			return []string{"\"a\"", "'a", "\",\"", "\"\""}[t.Intn(4)]
		case 3:
			return "nil"
		case 4:
			return fmt.Sprintf("[%s]", pick().name)
		default:
			return fmt.Sprintf("[%d]", t.Intn(50))
		}
	}
	arg := func() string {
		shape := t.Pick(5, 1, 1, 1, 1, 1)
		if len(replay) > 0 {
			shape = replay[0]
			replay = replay[1:]
		}
		argShapes = append(argShapes, shape)
		return argOf(shape)
	}
	callee := func() string {
		nslot++
		switch t.Pick(3, 2, 2, 1, 1, 1, 1) {
		case 0:
			return fmt.Sprintf("{|x| S(%d, x, \\0, \\_); x}", nslot)
		case 1:
			return fmt.Sprintf("{|x, y| S(%d, x, y, \\0); y}", nslot)
		case 2:
			return fmt.Sprintf("{|x| S(%d, x); true}", nslot)
		case 3:
			return fmt.Sprintf("{|x| S(%d, x); nil}", nslot)
		case 4:
			return fmt.Sprintf("{|x, y| S(%d, x, y); x <=> y}", nslot)
		case 5:
			return fmt.Sprintf("{|| S(%d, \\0, \\_); \\1}", nslot)
		default:
			return fmt.Sprintf("{|x| S(%d, x); [x]}", nslot)
		}
	}
	nsteps := 5 + t.Intn(26)
	var lastRecv entry
	var lastKind, lastName string
	var lastShapes []int
	// sub-variant draws of a step (which literal form, which chain context ...) are
	// recorded so that a repeated step re-applies the very same operation form
	var subs, lastSubs, subReplay []int
	lastChoice := -1
	sub := func(weights ...int) int {
		v := t.Pick(weights...)
		if len(subReplay) > 0 {
			v = subReplay[0]
			subReplay = subReplay[1:]
		}
		subs = append(subs, v)
		return v
	}
	for step := 0; step < nsteps; step++ {
		recv := pick()
		var src, opKind, opName string
		choice := t.Pick(8, 4, 1, 3, 3, 4, 2)
		// aliasing needs a history: often apply the previous operation again to the same
		// receiver with other arguments (siblings derived from one value must not interfere)
		repeat := lastChoice >= 0 && t.Chance(1, 3)
		argShapes = argShapes[:0]
		replay = nil
		subs = nil
		subReplay = nil
		if repeat {
			recv = lastRecv
			replay = append([]int(nil), lastShapes...)
			subReplay = append([]int(nil), lastSubs...)
			choice = lastChoice
		}
		switch choice {
		case 0: // property call
			names := c.propsFor(recv.val)
			if len(names) == 0 {
				continue
			}
			opName = names[t.Intn(len(names))]
			if repeat && lastKind == "prop" {
				opName = lastName
			}
			opKind = "prop"
			var args []string
			for i := t.Pick(3, 4, 2, 1); i > 0; i-- {
				args = append(args, arg())
			}
			if t.Chance(1, 8) {
				args = append(args, "private?: true")
			}
			if t.Chance(1, 8) {
				// the keyword arguments built-in and native props understand
				kw := []string{"key: " + arg(), "sep: \",\"", "base: 2", "base: 16", "end: \"~\"", "rev: true", "init: " + arg(), "started: true", "min: 0", "max: 9"}
				args = append(args, kw[t.Intn(len(kw))])
			}
			// `*` / `**` expansions of pool values among the arguments (one or two of each)
			if t.Chance(1, 6) {
				args = append([]string{"*" + pick().name}, args...)
			}
			for i := t.Pick(5, 1, 1); i > 0; i-- {
				args = append(args, "**"+pick().name)
			}
			src = fmt.Sprintf("%s.%s(%s)", recv.name, opName, strings.Join(args, ", "))
			if t.Chance(1, 3) {
				src += " " + callee()
			}
		case 1: // infix
			opName = c06Infix[t.Intn(len(c06Infix))]
			if repeat && lastKind == "infix" {
				opName = lastName
			}
			opKind = "infix"
			src = fmt.Sprintf("(%s %s %s)", recv.name, opName, arg())
		case 2: // prefix
			opName = []string{"-", "!", "/~"}[t.Intn(3)]
			opKind = "prefix"
			src = fmt.Sprintf("(%s%s)", opName, recv.name)
		case 3: // index / slice
			opKind, opName = "index", "at"
			switch sub(3, 2, 1, 1, 2) {
			case 4:
				// looked up by one of its own keys (for a map also the array/object keys it has)
				src = fmt.Sprintf("%s[%s.keys[%d]]", recv.name, recv.name, t.Intn(4))
			case 0:
				src = fmt.Sprintf("%s[%s]", recv.name, arg())
			case 1:
				src = fmt.Sprintf("%s[%d:%d]", recv.name, t.Intn(5)-2, t.Intn(6)-1)
			case 2:
				src = fmt.Sprintf("%s[%d:%d:%d]", recv.name, t.Intn(5)-2, t.Intn(6)-1, []int{1, 2, -1, -2}[t.Intn(4)])
			default:
				src = fmt.Sprintf("%s['%s]", recv.name, []string{"a", "b", "len", "keys", "_p"}[t.Intn(5)])
			}
		case 4: // literal embedding pool values
			opKind = "literal"
			switch sub(3, 3, 2, 1, 1) {
			case 0:
				opName = "arr"
				switch sub(2, 3, 1, 1) {
				case 0:
					src = fmt.Sprintf("[%s, *%s, %s]", arg(), recv.name, arg())
				case 1:
					src = fmt.Sprintf("[*%s, %s]", recv.name, arg())
				case 2:
					src = fmt.Sprintf("[*%s, *%s]", recv.name, pick().name)
				default:
					src = fmt.Sprintf("[*%s]", recv.name)
				}
			case 1:
				opName = "obj"
				if t.Chance(1, 2) {
					src = fmt.Sprintf("{k: %s, a: %s, **%s}", arg(), arg(), recv.name)
				} else {
					src = fmt.Sprintf("{k: %s, **%s, **%s}", arg(), recv.name, pick().name)
				}
			case 2:
				opName = "map"
				if t.Chance(1, 3) {
					// a key the unpacked value already has (duplicate resolution paths)
					src = fmt.Sprintf("%%{%s.keys[%d]: %s, **%s}", recv.name, t.Intn(4), arg(), recv.name)
				} else if t.Chance(1, 2) {
					src = fmt.Sprintf("%%{%s: %s, **%s}", arg(), arg(), recv.name)
				} else {
					src = fmt.Sprintf("%%{%s: %s, **%s, **%s}", arg(), arg(), recv.name, pick().name)
				}
			case 3:
				opName = "embstr"
				src = fmt.Sprintf("\"<#{%s}|#{%s}>\"", recv.name, arg())
			default:
				opName = "call-unpack"
				switch sub(1, 1, 1) {
				case 0:
					src = fmt.Sprintf("{|a, b, k: 1| [a, b, k, \\0, \\_]}(*%s, **%s)", recv.name, pick().name)
				case 1:
					src = fmt.Sprintf("{|a, k: 1| [a, k, \\_]}(%s, **%s, **%s)", arg(), recv.name, pick().name)
				default:
					src = fmt.Sprintf("{|a, k: 1| [a, k, \\0, \\_]}(*%s, *%s, k: %s, **%s, **{zz: 1})", recv.name, pick().name, arg(), pick().name)
				}
			}
		case 5: // chains with the simulated callee
			opKind = "chain"
			ctx := []string{"@", "&@", "=@", "~@", "$", "~$", ".", "~.", "&."}[sub(1, 1, 1, 1, 1, 1, 1, 1, 1)]
			opName = ctx
			chainArg := ""
			if strings.HasSuffix(ctx, "$") || t.Chance(1, 5) {
				chainArg = "(" + arg() + ")"
			}
			if (ctx == "@" || ctx == "=@" || ctx == "&@" || ctx == "~@" || ctx == "$") && t.Chance(1, 4) {
				// spy-first chain: the elements are a spy object and pool values; the spy defines the
				// very property the chain calls, as a method that hands everything it received
				// (`\_`, `\0`) to the simulated callee. Whatever the calls on the later elements do,
				// those values are watched from then on - the chain evaluates its arguments once and
				// hands the same objects to every element's call.
				names := c.propsFor(recv.val)
				if len(names) > 0 {
					pn := names[t.Intn(len(names))]
					nslot++
					var args []string
					for i := t.Pick(3, 3, 1); i > 0; i-- {
						args = append(args, arg())
					}
					if t.Chance(1, 4) {
						args = append(args, "**"+pick().name)
					}
					spy := fmt.Sprintf("{%q: m{S(%d, \\_, \\0); 1}}", pn, nslot)
					order := fmt.Sprintf("[%s, %s, %s]", spy, recv.name, pick().name)
					if t.Chance(1, 3) {
						order = fmt.Sprintf("[%s, %s, %s]", recv.name, spy, pick().name)
					}
					opName = "spy:" + ctx
					src = fmt.Sprintf("%s%s%s%s(%s)", order, ctx, chainArg, pn, strings.Join(args, ", "))
					break
				}
			}
			if t.Chance(2, 3) {
				src = fmt.Sprintf("%s%s%s%s", recv.name, ctx, chainArg, callee())
			} else {
				names := []string{"S", "repr", "A", "len", "+", "keys", "B", "nil?"}
				p := names[t.Intn(len(names))]
				if p == "+" {
					src = fmt.Sprintf("%s%s%s+(%s)", recv.name, ctx, chainArg, arg())
				} else {
					src = fmt.Sprintf("%s%s%s%s", recv.name, ctx, chainArg, p)
				}
			}
		default: // object system
			opKind = "objsys"
			switch sub(2, 1, 2, 1, 1, 2) {
			case 5:
				// Kernel props are injected into the top level: called as plain functions
				opName = "kernel"
				switch sub(1, 1, 1, 1) {
				case 0:
					src = fmt.Sprintf("assert(%s)", recv.name)
				case 1:
					src = fmt.Sprintf("assertEq(%s, %s)", recv.name, arg())
				case 2:
					src = fmt.Sprintf("assertRaises(ValueErr, \"injected\") %s", callee())
				default:
					src = fmt.Sprintf("[%s, JSON.dec(`[null, true, {\"a\": null}]`), %s.traverse(key: 'a)]", recv.name, recv.name)
				}
			case 0:
				opName = "bear"
				src = fmt.Sprintf("%s.bear({z: %s})", recv.name, arg())
			case 1:
				opName = "bro"
				src = fmt.Sprintf("%s.bro({z: %s})", recv.name, arg())
			case 2:
				opName = "new"
				src = fmt.Sprintf("%s.new(%s)", []string{"Int", "Str", "Arr", "Obj", "Map", "Range", "Float", "Nil", "Func"}[t.Intn(9)], recv.name)
			case 3:
				opName = "digest"
				src = fmt.Sprintf("[[\"a\", 1], [\"b\", %s]]@(%s){|x| x}", arg(), recv.name)
			default:
				if typeTag(recv.val) == "errwrap" {
					// raising a caught error again (caught once more, or ending the line) must
					// leave the caught value as it was
					opName = "reraise"
					switch sub(2, 1, 1, 1) {
					case 3:
						src = fmt.Sprintf("1.try.{|x| raise %s if x == 1; x}.err", recv.name) // guarded raise
					case 0:
						src = fmt.Sprintf("1.try.{|x| raise %s}.err", recv.name)
					case 1:
						src = fmt.Sprintf("{|| 0; raise %s}()", recv.name)
					default:
						src = fmt.Sprintf("[%s.type, %s.msg, %s == %s]", recv.name, recv.name, recv.name, pick().name)
					}
				} else {
					opName = "try"
					src = fmt.Sprintf("%s.try.{|x| %s}.A", recv.name, arg())
				}
			}
		}
		lastKind, lastName, lastRecv = opKind, opName, recv
		lastChoice = choice
		lastShapes = append([]int(nil), argShapes...)
		lastSubs = append([]int(nil), subs...)
		// fault plan: the callee raises at its k-th invocation (abort atomicity)
		var plan map[int]harness.Ret
		faulted := false
		if strings.Contains(src, "S(") && t.Chance(1, 3) {
			plan = map[int]harness.Ret{t.Intn(4): {Kind: "raise", S: "ValueErr", Msg: "injected"}}
			faulted = true
		}
		for i := range pool {
			pool[i].fp = c06Fingerprint(pool[i].val, c.builtins, 0)
		}
		s.Fingerprints += int64(len(pool))
		r, ok := evalLine(src, plan)
		if !ok {
			continue
		}
		s.Steps++
		s.OpKinds[opKind]++
		s.PropKeys[typeTag(recv.val)+"#"+opKind+":"+opName]++
		log = append(log, fmt.Sprintf("v%d := %s   # plan=%v", len(pool), src, plan))
		if strings.Contains(r.Panic, "fuel exhausted") {
			s.Fuel++
		}
		if r.Err != nil {
			s.Errors++
			if faulted && r.Err.Msg == "injected" {
				s.Aborted++
			}
		}
		// the oracle: every value that existed before the step is unchanged
		checkSeen()
		if seenChanged != nil {
			return []Viol{{Prop: "C06", Run: run, Seed: seed, Tape: append([]uint32(nil), t.Rec...), Engine: "hist",
				Signature: fmt.Sprintf("C06/%s#%s:%s/%s/handed-to-callee", typeTag(recv.val), opKind, opName, typeTag(seenChanged.val)),
				Derived:   map[string]interface{}{"history": append([]string(nil), log...), "changed_value": seenChanged.name},
				Expected:  map[string]interface{}{"fingerprint_when_handed_over": clipStr(seenChanged.fp, 1200)},
				Actual:    map[string]interface{}{"fingerprint_later": clipStr(seenNow, 1200), "step_result": describeResult(r)}}}
		}
		if r.Err == nil && r.Panic == "" && r.Obj != nil && hasCycle(r.Obj) {
			// a value that contains itself cannot be built from immutable values
			return []Viol{{Prop: "C06", Run: run, Seed: seed, Tape: append([]uint32(nil), t.Rec...), Engine: "hist",
				Signature: fmt.Sprintf("C06/%s#%s:%s/cyclic-result", typeTag(recv.val), opKind, opName),
				Derived:   map[string]interface{}{"history": append([]string(nil), log...)},
				Expected:  map[string]interface{}{"result": "a finite value (containers of immutable values cannot contain themselves)"},
				Actual:    map[string]interface{}{"result": "the step's result is reachable from itself"}}}
		}
		for i := range pool {
			now := c06Fingerprint(pool[i].val, c.builtins, 0)
			s.Fingerprints++
			if now != pool[i].fp {
				what := "completed"
				if r.Err != nil || r.Panic != "" {
					what = "aborted"
				}
				return []Viol{{Prop: "C06", Run: run, Seed: seed, Tape: append([]uint32(nil), t.Rec...), Engine: "hist",
					Signature: fmt.Sprintf("C06/%s#%s:%s/%s/%s", typeTag(recv.val), opKind, opName, typeTag(pool[i].val), what),
					Derived:   map[string]interface{}{"history": append([]string(nil), log...), "changed_value": pool[i].name, "changed_value_created_by": pool[i].src},
					Expected:  map[string]interface{}{"fingerprint_before": clipStr(pool[i].fp, 1200)},
					Actual:    map[string]interface{}{"fingerprint_after": clipStr(now, 1200), "step_result": describeResult(r)}}}
			}
		}
		before := len(pool)
		if r.Err == nil && r.Panic == "" && r.Obj != nil && len(pool) < 28 {
			add(src, r.Obj)
		}
		if lines != nil {
			l := c06Line{Src: src, Plan: plan, Result: describeResult(r)}
			if len(pool) > before {
				l.Src = fmt.Sprintf("v%d := %s", before, src)
			}
			*lines = append(*lines, l)
		}
	}
	if len(s.Samples) < 2 {
		s.Samples = append(s.Samples, map[string]interface{}{"history": log})
	}
	return nil
}

func describeResult(r harness.Result) string {
	switch {
	case r.Panic != "":
		return "PANIC " + r.Panic
	case r.Err != nil:
		return "Raise(" + r.Err.Inspect() + ")"
	case r.Obj != nil:
		if tooDeep(r.Obj, 10) {
			return "<value nested deeper than 10 levels or cyclic>"
		}
		return clipStr(r.Obj.Inspect(), 300)
	}
	return "<nil>"
}

func (c *c06Check) Evidence(st Stats, tier string) (map[string]interface{}, []string) {
	s := st.(*C06Stats)
	cov := map[string]interface{}{
		"evaluations":                         s.Steps,
		"distinct_nontrivial":                 len(s.PropKeys),
		"rule":                                "one case = one step of a history: a tape-chosen operation (property found by reflection on the receiver's prototype chain with pool/literal arguments and optional callee, infix/prefix operator, index/slice, literal with `*`/`**` of pool values, one of 9 chain contexts with the simulated callee, bear/bro/new/digest/try) applied to a pool of up to 28 live values, with the callee raising at a tape-chosen invocation in a third of the callee-bearing steps; distinct_nontrivial = distinct (receiver type, operation) pairs exercised",
		"samples":                             s.Samples,
		"histories":                           s.Histories,
		"steps":                               s.Steps,
		"fingerprints_taken":                  s.Fingerprints,
		"op_kinds":                            s.OpKinds,
		"receiver_op_pairs":                   s.PropKeys,
		"steps_ending_in_error":               s.Errors,
		"fault_kinds_fired":                   map[string]int{"callee_raise_aborting_an_operation": s.Aborted, "evaluation_cut_by_fuel": s.Fuel},
		"values_pooled":                       s.Pooled,
		"values_handed_to_callee_and_watched": s.Witnessed,
		"pooled_value_types":                  s.TypesSeen,
		"simulated_time":                      "none; steps = operations applied",
		"real_vs_stub":                        realVsStub,
	}
	if len(s.Samples) == 0 {
		cov["samples"] = []interface{}{"(none)"}
	}
	return cov, []string{
		"a fingerprint covers type, prototype identity, scalar payload, array elements (not capacity), object/map pairs and key order, range bounds, function source, error kind and message; an error's stack trace is excluded",
		"iterators and variables are outside the pool, as the statement says",
		"blocking/IO properties (serve, import, invite!, read, <>) are never called; values that grow beyond small bounds are not pooled",
	}
}

func init() { register("C06", func() Check { return &c06Check{} }) }
