package checks

import (
	"bytes"
	"context"
	"encoding/json"
	"flag"
	"fmt"
	"io"
	"net/http"
	"os"
	"os/exec"
	"path/filepath"
	"regexp"
	"sort"
	"strings"
	"time"

	"github.com/Syuparn/pangaea/object"
	"github.com/Syuparn/pangaea/runscript"
	play "github.com/Syuparn/pangaea/verifplay"
	seam "github.com/Syuparn/pangaea/verifseam"

	"verifsim/harness"
	"verifsim/tape"
)

// C19: a fresh evaluation is independent of what the process evaluated before.
// One long-lived interpreter is driven through its real front-ends by a tape-chosen
// history of programs; after every step (1) the fingerprint of all built-in
// singletons must equal the post-start-up fingerprint and (2) a probe program must
// behave exactly as in a newly started OS process.

// FingerprintBuiltins renders every value of the global scope: sorted own keys of
// objects with each value's Inspect, plus the shared `_` error incl. its stack trace.
func FingerprintBuiltins(env *object.Env) string {
	var sb strings.Builder
	names := []string{}
	store := map[string]object.PanObject{}
	for h, o := range env.Store {
		s, ok := object.SymHash2Str(h)
		if !ok {
			continue
		}
		name := s.(*object.PanStr).Value
		if name == "IO" {
			continue
		}
		names = append(names, name)
		store[name] = o
	}
	sort.Strings(names)
	for _, n := range names {
		o := store[n]
		sb.WriteString(n + "=")
		switch po := o.(type) {
		case *object.PanObj:
			if po.Pairs == nil {
				sb.WriteString("<nil pairs>")
				break
			}
			keys := []string{}
			vals := map[string]string{}
			for _, p := range *po.Pairs {
				k := p.Key.Inspect()
				keys = append(keys, k)
				vals[k] = p.Value.Inspect()
			}
			sort.Strings(keys)
			for _, k := range keys {
				sb.WriteString(k + ":" + vals[k] + ";")
			}
		case *object.PanErr:
			sb.WriteString(fmt.Sprintf("ERR kind=%s msg=%q stack=%q", po.Kind(), po.Msg, po.StackTrace))
		default:
			sb.WriteString(o.Inspect())
		}
		sb.WriteString("\n")
	}
	e := object.BuiltInNotImplemented
	sb.WriteString(fmt.Sprintf("BuiltInNotImplemented: kind=%s msg=%q stack=%q\n", e.Kind(), e.Msg, e.StackTrace))
	return sb.String()
}

var identRe = regexp.MustCompile(`[A-Za-z_][A-Za-z0-9_]*[!?]?`)

// symtabIntegrity checks the process-wide symbol table for every name that occurs in
// src: converting an interned symbol back must give a plain Str with exactly that text,
// whatever objects earlier programs created (a later evalEnv/import hands these out).
func symtabIntegrity(src string) string {
	seen := map[string]bool{}
	for _, name := range identRe.FindAllString(src, -1) {
		if seen[name] {
			continue
		}
		seen[name] = true
		o, ok := object.SymHash2Str(object.GetSymHash(name))
		if !ok {
			return fmt.Sprintf("symbol %q cannot be converted back", name)
		}
		ps, isStr := o.(*object.PanStr)
		if !isStr || ps.Value != name || ps.Proto() != object.BuiltInStrObj {
			return fmt.Sprintf("symbol %q converts back to %s (proto %s)", name, o.Inspect(), clipStr(o.Proto().Inspect(), 80))
		}
	}
	return ""
}

func firstDiffLine(a, b string) (string, string, string) {
	x, y := strings.Split(a, "\n"), strings.Split(b, "\n")
	for i := 0; i < len(x) && i < len(y); i++ {
		if x[i] != y[i] {
			return strings.SplitN(x[i], "=", 2)[0], x[i], y[i]
		}
	}
	return "shape", fmt.Sprint(len(x)), fmt.Sprint(len(y))
}

type probeResult struct {
	Stdout string `json:"stdout"`
	Value  string `json:"value"`
	Err    string `json:"err"`
	Exit   int    `json:"exit"`
	Stderr string `json:"stderr"`
}

func (p probeResult) diff(q probeResult) string {
	switch {
	case p.Stdout != q.Stdout:
		return "stdout"
	case p.Value != q.Value:
		return "value"
	case p.Err != q.Err:
		return "error"
	case p.Exit != q.Exit:
		return "exit"
	case p.Stderr != q.Stderr:
		return "stderr"
	}
	return ""
}

// captureStderr redirects os.Stderr (runscript prints errors there directly).
func captureStderr(f func()) string {
	old := os.Stderr
	r, w, err := os.Pipe()
	if err != nil {
		f()
		return ""
	}
	os.Stderr = w
	done := make(chan string, 1)
	go func() {
		b, _ := io.ReadAll(r)
		done <- string(b)
	}()
	f()
	os.Stderr = old
	w.Close()
	s := <-done
	r.Close()
	return s
}

// ---- front-ends ----

type frontend interface {
	name() string
	// exec runs one program; plan: the simulated callee raises at its k-th invocation (k<0: never)
	exec(src, stdin string, faultAt int) probeResult
}

// playground: the extracted Executor.execute of web/wasm/executor.go
type playFE struct{ ex *play.Executor }

func (p *playFE) name() string { return "playground" }
func (p *playFE) exec(src, stdin string, faultAt int) probeResult {
	var out bytes.Buffer
	var res probeResult
	func() {
		defer func() {
			if r := recover(); r != nil {
				res.Err = fmt.Sprint("HOST PANIC ", r)
			}
		}()
		src = calleePrelude(faultAt) + src
		defer bounded()()
		v, errmsg := p.ex.Run(strings.NewReader(src), strings.NewReader(stdin), &out)
		res.Err = errmsg
		if v != nil {
			res.Value = v.Repr()
		}
	}()
	res.Stdout = out.String()
	return res
}

// bounded gives the front-end call that follows a step budget (entries of evaluator.Eval),
// so that a program that no longer terminates ends as the host panic "fuel exhausted"
// instead of hanging the history; the returned func switches the counter off again.
func bounded() func() {
	seam.SetFuel(4 * harness.DefaultFuel)
	return func() { seam.SetFuel(0) }
}

// calleePrelude defines the history programs' failing callee in the language itself
// for front-ends that give no access to the scope: S(i) raises when i equals faultAt.
// It is one line, so that it does not shift the line numbers of the program.
func calleePrelude(faultAt int) string {
	return fmt.Sprintf("S := {|i| raise ValueErr.new(\"hist fault\") if i == %d; i}; ", faultAt)
}

// eval: bare Parse+Eval in NewEnclosedEnv(global) (a server handling its next request)
type evalFE struct{ it *harness.Interp }

func (e *evalFE) name() string { return "eval" }
func (e *evalFE) exec(src, stdin string, faultAt int) probeResult {
	var res probeResult
	prog, err := harness.Parse(calleePrelude(faultAt) + src)
	if err != nil {
		res.Err = err.Error()
		return res
	}
	// every evaluation gets its own IO object, as the playground does per execution
	e.it.Global.InjectIO(strings.NewReader(stdin), e.it.Out)
	r := e.it.Run(prog, nil)
	res.Stdout = r.Stdout
	switch {
	case r.Panic != "":
		res.Err = "HOST PANIC " + r.Panic
	case r.Err != nil:
		res.Err = r.Err.Inspect() + "\n" + r.Err.StackTrace + "\n"
	case r.Obj != nil:
		res.Value = r.Obj.Repr()
	}
	return res
}

// runsource: runscript.RunSource, a fresh setup per call in the same process
type runSourceFE struct{}

func (runSourceFE) name() string { return "runsource" }
func (runSourceFE) exec(src, stdin string, faultAt int) probeResult {
	var out bytes.Buffer
	var res probeResult
	res.Stderr = captureStderr(func() {
		defer func() {
			if r := recover(); r != nil {
				res.Err = fmt.Sprint("HOST PANIC ", r)
			}
		}()
		defer bounded()()
		res.Exit = runscript.RunSource(calleePrelude(faultAt)+src, "prog.pangaea", strings.NewReader(stdin), &out)
	})
	res.Stdout = out.String()
	return res
}

// ---- history and probe programs ----

type histProg struct {
	kind    string
	src     string
	faultAt int
	stdin   string
}

func genHistory(t *tape.Tape, uniq string) histProg {
	switch t.Pick(3, 1, 3, 3, 1, 2, 2, 2, 1, 2, 1, 3, 3, 2, 2, 3, 3, 2, 3) {
	case 18:
		// shapes far from the usual sizes: anything the interpreter sizes, caches or grows on
		// demand per process (argument-variable names, buffers, tables) sees its extremes here
		n := 9 + t.Intn(14)
		args := make([]string, n)
		for i := range args {
			args[i] = fmt.Sprint(i + 1)
		}
		a := strings.Join(args, ", ")
		return histProg{kind: "wide-shapes", faultAt: -1, src: fmt.Sprintf(
			"{|| \\0.len}(%s).p\n{\\%d}(%s).p\n[%s].len.p\n{|%s| 1}(%s).p\n%s1%s.p\n",
			a, n, a, a, "p"+strings.Join(args, ", p"), a, strings.Repeat("(", 25), strings.Repeat(")", 25))}
	case 17:
		return histProg{kind: "rich-syntax-run", faultAt: -1, src: richSyntax}
	case 15:
		return histProg{kind: "parse-abandoned", faultAt: -1, src: brokenSyntax(t, false)}
	case 16:
		return histProg{kind: "parse-abandoned-handled", faultAt: -1, src: handledSyntax(t)}
	case 0:
		return histProg{kind: "fail-at-step", faultAt: 1 + t.Intn(4),
			src: "hx1 := S(1)\nhx2 := [S(2), hx1]\nhf := {|a| S(3); a}\nhf(S(4))\n\"done\".p\n"}
	case 1:
		return histProg{kind: "syntax-error", faultAt: -1, src: []string{"1 +* 2\n", "{|\n", "\"abc\n", "x := := 3\n"}[t.Intn(4)]}
	case 2:
		return histProg{kind: "underscore", faultAt: -1,
			src: []string{"_\n", "hu := {a: _}\nhu.a\n", "hg := {|| 1; _}\nhg()\n", "[1, 2]@{|x| _}\n", "1.try.{|x| _}.A.p\n_\n"}[t.Intn(5)]}
	case 3:
		return histProg{kind: "define-probe-names", faultAt: -1,
			src: "px := 99\npf := {|a| a * 100}\npobj := {name: \"hist\", twice: m{2}}\nPConst := 5\nS1 := 1\nprobe := 3\n[px, pf(2)].p\n"}
	case 4:
		return histProg{kind: "import", faultAt: -1, src: []string{"import(\"dummy\")\n", "invite!(\"dummy\")\n", "import(\"nosuchmodule\")\n"}[t.Intn(3)]}
	case 5:
		return histProg{kind: "evalenv", faultAt: -1, src: fmt.Sprintf("\"ea_%s := 1; px := 2\".evalEnv.p\n\"px := 5; px\".eval.p\npx := 7\npf := {|a| a + 1}\nimport(\"dummy\")\n", uniq)}
	case 6:
		return histProg{kind: "proto-extend", faultAt: -1,
			src: []string{
				"Int.bear({twice: m{self * 2}}).p\nhi := Int.bear({twice: m{self * 2}})\nhi.new(3).twice.p\n",
				"Obj.new({a: 1, twice: 2}).p\nArr.bear({twice: 3})\n",
				"Int['twice].p\nInt.keys.len.p\nStr.bear({px: 1}).px.p\n",
				"o := {twice: m{2}}\no.bear.twice.p\nBaseObj.bear({twice: 7}).twice.p\n",
			}[t.Intn(4)]}
	case 7:
		return histProg{kind: "either-abstract", faultAt: -1,
			src: []string{"Either.A\n", "Either.val\n", "Either.fmap {|x| x}\n", "1.try.val.p\nEither.err\n", "Either.or(1)\n"}[t.Intn(5)]}
	case 8:
		return histProg{kind: "stdin-half-consumed", faultAt: -1, stdin: "h1\nh2\nh3\n", src: "<>.p\n"}
	case 9:
		return histProg{kind: "raise-and-defer", faultAt: 1 + t.Intn(2),
			src: "hd := {|a|\n  defer \"cleanup\".p\n  S(1)\n  raise Err.new(\"hist boom\") if a\n  S(2)\n}\nhd(true)\n"}
	case 14:
		// values that descend from Str/Int are hashed, compared and used as keys under
		// texts nobody interned before
		return histProg{kind: "str-descendant-interned", faultAt: -1,
			src: fmt.Sprintf("Secret := Str.bear({S: m{\"***\"}, p: m{\"hidden\".p}})\nk := Secret.new(\"hk_%s\")\n(k == \"hk_%s\").p\n%%{k: 1}.keys.len.p\n{a: 1}.which(k).p\n[k, Secret.new(\"zz_probe_key\")]@{|x| x == \"zz_probe_key\"}.p\n", uniq, uniq)}
	case 13:
		// re-binding the names of built-ins and of Kernel props in the program's own scope
		return histProg{kind: "rebind-builtin-names", faultAt: -1,
			src: "Int := 5\nArr := nil\nStr := {len: 99}\nassertEq := {|a, b| \"hijacked\"}\nassert := 1\ntrue := 0\nnil := 1\nKernel := 1\nErr := ValueErr\n[Int, assertEq(1, 2)].p\n"}
	case 12:
		// built-in prototypes used as ordinary operands (expansion, unpacking, chains)
		return histProg{kind: "builtin-as-operand", faultAt: -1,
			src: []string{
				"hf := {|| \\_}\nhf(**Obj, **{twice: 1, px: 2}).keys.len.p\nhf(**Int, **Str, **{px: 3}).keys.len.p\n",
				"{**Int, **{twice: 3}}.keys.len.p\n%{**Obj, **{px: 1}}.len.p\n{px: 1, **Arr}.px.p\n",
				"Obj.new(Int).p\nInt.bro({twice: 4}).twice.p\nObj.bear(Int).bear({px: 5}).px.p\n",
				"Int@{|k, v| k}.len.p\nKernel$({}){|acc, kv| {**acc, twice: kv}}.keys.len.p\n[*Int.keys, 'twice].len.p\n",
				"hg := {|a, px: 0, twice: 0| [px, twice]}\nhg(1, **Str, **{twice: 7}).p\nStr.callProp(Int, 'twice).p\n",
			}[t.Intn(5)]}
	case 11:
		// the same literal texts as some probes, in another context (other values, other positions)
		return histProg{kind: "same-literal-text", faultAt: -1,
			src: []string{
				"step := 1\ninc := {|x, by: step| x + by}\ndescribe := {|o| o.name.uc}\ninc(1).p\ndescribe({name: \"a\"}).p\n",
				"\n\nbase := 100\ncounter := <{|i, k: base| yield i + k if i < 3; recur(i + 1)}>\ncounter.new(0).A.p\nobj := {val: base, get: m{|d: base| .val + d}}\nobj.get.p\n",
				"n := 7\n\"n + 1\".eval.p\n\"q := n\".evalEnv.p\nhalf := {|x| x / 0}\n1.try.{|x| half(x)}.err.p\n",
			}[t.Intn(3)]}
	default:
		var sb strings.Builder
		for i := 0; i < 20; i++ {
			fmt.Fprintf(&sb, "sym_%s_%d := {k_%s_%d: %d}\n", uniq, i, uniq, i, i)
		}
		return histProg{kind: "intern-symbols", faultAt: -1, src: sb.String()}
	}
}

// richSyntax is a valid program that takes the lexer and parser through all their modes
// (interpolations, raw strings, symbols, char and number forms, comments, multi-line
// chains, literals of every kind, `}` directly followed by a string, ...). It serves as a
// probe, and - cut or corrupted at a tape-chosen place - as the source of histories whose
// parse is abandoned in an arbitrary lexer/parser state.
const richSyntax = "# rich syntax probe\no := {a: 1, \"b\": 2, 'c: 3}\nf := {|x, k: \"d\"| \"#{x}-#{k}\"}\nassertEq({a: 1}.a.S, \"1\")\n[f(1), f(2, k: \"e\"), {|x| x}(\"a\")].p\ns := \"pre #{o.a + 1} mid #{o['b]} post\"\ns.p\nr := `raw #{no} \"q\"`\nr.p\nm := %{1: \"x\", \"k\": [1, 2], [3]: {z: nil}}\nm.p\n[1, 2, 3]\n  |@{|i| i * 2}\n  |$(0){|acc, i| acc + i}\n  |.p\nt := (1:10:3).A\n[t, ?a, 'sym, 0x1f, 1e2, 1.5, -2, !true].p\ng := <{|i| yield i if i < 2; recur(i + 1)}>\ng.new(0).A.p\nh := m{|y| [self, y]}\n{h: h}.h(1).p\n[1, 2]@{|x| \"#{x}!\"}.p\n\"a,b\".split(sep: \",\")@uc.p\n(1 if o.a == 1 else 2).p\nnil&.nosuch.p\n{|x| x}(\"}\").p\n\"done }\" .p\ng0 := {|| \\0}\ng0().p\nh0 := {|cb| [cb, \\0.len]}\nh0() {|x| x + 1}.p\ng0().p\no2 := {m: m{|| \\0.len}, n: m{|cb| [cb.nil?, \\0.len]}}\n[o2.m(), o2.n() {|y| y}, o2.m()].p\n<{|| yield 1}>.new().next.p\n{|| 2}().p\n"

// brokenSyntax cuts richSyntax at a tape-chosen byte or drops a stray token into it.
func brokenSyntax(t *tape.Tape, noBackquote bool) string {
	src := richSyntax
	if noBackquote {
		var keep []string
		for _, l := range strings.Split(src, "\n") {
			if !strings.Contains(l, "`") {
				keep = append(keep, l)
			}
		}
		src = strings.Join(keep, "\n")
	}
	pos := 1 + t.Intn(len(src)-1)
	if t.Chance(1, 2) {
		return src[:pos]
	}
	strays := []string{" 1 2 ", ")", "}", "\"", "#{", " a b ", "|", "\n|@", "'", "`"}
	if noBackquote {
		strays = strays[:len(strays)-1]
	}
	return src[:pos] + strays[t.Intn(len(strays))] + src[pos:]
}

// handledSyntax is a program that passes although it parses a broken text itself.
func handledSyntax(t *tape.Tape) string {
	b := brokenSyntax(t, true)
	switch t.Intn(3) {
	case 0:
		return "hr := `" + b + "`.try.eval\nhr.err?.B.p\n"
	case 1:
		return "hr := `" + b + "`.try.evalEnv\nhr.err?.B.p\n"
	default:
		return "hq := 1\n[`" + b + "`]@{|s| s.try.eval.err?.B}.p\n"
	}
}

type probeProg struct {
	kind  string
	src   string
	stdin string
}

var probes = []probeProg{
	{"names", "[px, pf]\n", ""},
	{"names2", "pobj.name.p\n", ""},
	{"names3", "q := 1\nprobe\n", ""},
	{"underscore", "_\n", ""},
	{"underscore-prop", "pu := {a: 1, b: _}\n\"before\".p\npu.b\n", ""},
	{"underscore-call", "pg := {|x|\n  x.p\n  _\n}\npg(5)\n", ""},
	{"either-abstract", "Either.val\n", ""},
	{"either-abstract2", "1.p\nEither.A\n", ""},
	{"stacktrace", "g := {|x| x / 0}\n\"start\".p\ng(1)\n", ""},
	{"noprop", "1.twice\n", ""},
	{"builtins", "[Int.keys.len, Obj.keys.len, Arr.keys.len, Str.keys.len, Kernel.keys.len, 1.which('+), Int['twice], {}['px]].p\n", ""},
	{"stdin", "<>.p\n<>.p\n", "L1\nL2\nL3\n"},
	{"normal", "o := {a: 1}\n[o.a, \"x\".uc, (1:4).A].p\nS1 := 2\n3\n", ""},
	{"callee-name", "S(1)\n", ""},
	{"try", "5.try.{|n| n / 0}.A.p\n5.try.{|n| hx1}.err.p\n", ""},
	{"evalenv", "\"a := 1\".evalEnv.p\n\"px\".eval\n", ""},
	// code given to evalEnv / an imported module sees the built-ins and nothing of any program
	{"evalenv-unbound", "\"before\".p\n\"px + 1\".evalEnv\n\"after\".p\n", ""},
	{"evalenv-unbound2", "q := \"pf(1)\".evalEnv\nq.p\n", ""},
	{"evalenv-keys", "\"zz_probe_key := 1; yy_probe_key := 2\".evalEnv@{|k, v| \"#{k}=#{v} #{k.proto == Str}\"}.p\n", ""},
	{"builtin-names-in-use", "[Int.keys.len > 0, [1].len, \"ab\".len, assertEq(1, 1), Kernel.keys.len > 0, true, nil, Err.new(\"e\").type == Err].p\nassert(false)\n", ""},
	{"rich-syntax", richSyntax, ""},
	{"rich-syntax", richSyntax, ""},
	// operators overridden on children of the scalar prototypes (the histories use the built-in ones)
	{"operator-override", "Money := Int.bear({'+: m{|o| \"money sum\"}, '*: m{|o| \"money times\"}, '==: m{|o| \"money eq\"}})\n[Money.new(3) + Money.new(4), Money.new(3) * 2, Money.new(3) == 3, Money.new(3) - 1].p\nLoud := Str.bear({'+: m{|o| \"loud\"}})\n[Loud.new(\"a\") + \"b\", \"a\" + \"b\"].p\nHalf := Float.bear({'/: m{|o| \"half\"}})\n[Half.new(1.0) / 2.0, 1.0 / 2.0, -(Money.new(2)), !Money.new(0)].p\n", ""},
	// argument variables beyond the usual few, with 9 and then 10 arguments
	{"argvars", "{\\9}(1, 2, 3, 4, 5, 6, 7, 8, 9).p\n{[\\9, \\10]}(1, 2, 3, 4, 5, 6, 7, 8, 9, 10).p\n{|a, b, c, d, e, f, g, h, i, j, k| [i, k, \\11]}(1, 2, 3, 4, 5, 6, 7, 8, 9, 10, 11).p\n", ""},
	// output through props that are themselves written in Pangaea (native/Obj.pangaea)
	{"native-output", "\"np\".puts\n\"nq\".print\n[1, 2].puts\n\"end\".p\n", ""},
	{"syntax-error", "ok := 1\nok +* 2\n", ""},
	{"syntax-error2", "{|x| x\n", ""},
	{"same-literal-func", "step := 10\ninc := {|x, by: step| x + by}\ninc(1).p\n\ndescribe := {|o| o.name.uc}\ndescribe({title: \"b\"})\n", ""},
	{"same-literal-iter", "base := 5\ncounter := <{|i, k: base| yield i + k if i < 3; recur(i + 1)}>\ncounter.new(0).A.p\nobj := {val: base, get: m{|d: base| .val + d}}\nobj.get.p\nobj.nosuch\n", ""},
	{"same-literal-eval", "n := 40\n\"n + 1\".eval.p\nhalf := {|x| x / 0}\n\nhalf(3)\n", ""},
}

// ---- HTTP front-end: requests served through the real http module, in memory ----

var httpProbes = []httpReq{
	{Method: "GET", Target: "/probe"},
	{Method: "GET", Target: "/notimpl"},
	{Method: "GET", Target: "/zero"},
	{Method: "GET", Target: "/hello?name=p"},
	{Method: "GET", Target: "/users/1?a=1"},
	{Method: "GET", Target: "/env"},
	{Method: "POST", Target: "/hdr", Body: `{"x-probe": "1"}`},
}

func genHTTPHistory(t *tape.Tape, uniq string) httpReq {
	switch t.Pick(2, 2, 3, 2, 2, 2, 1, 1) {
	case 0:
		return httpReq{Method: "GET", Target: "/fail?msg=" + uniq}
	case 1:
		return httpReq{Method: "GET", Target: "/notimpl"}
	case 2:
		return httpReq{Method: "GET", Target: "/leak?v=L" + uniq}
	case 3:
		return httpReq{Method: "GET", Target: "/zero"}
	case 4:
		return httpReq{Method: "POST", Target: "/hdr", Body: fmt.Sprintf(`{"x-h-%s": "v", "x-g-%s": "w"}`, uniq, uniq)}
	case 5:
		return httpReq{Method: "GET", Target: fmt.Sprintf("/users/%s?k%s=v&j%s=w", uniq, uniq, uniq)}
	case 6:
		return httpReq{Method: "GET", Target: "/env"}
	default:
		return httpReq{Method: "GET", Target: "/nosuch" + uniq}
	}
}

func serveCaptured(h http.Handler, rq httpReq) probeResult {
	var r probeResult
	r.Stderr = captureStderr(func() { defer bounded()(); r.Stdout = serveOnce(h, rq) })
	return r
}

// ---- stats ----

type C19Stats struct {
	Histories int             `json:"histories"`
	Steps     int             `json:"history_steps"`
	Probes    int             `json:"probes_run"`
	Fresh     int             `json:"fresh_processes"`
	HistKinds map[string]int  `json:"history_kinds"`
	ProbeKind map[string]int  `json:"probe_kinds"`
	Frontends map[string]int  `json:"frontends"`
	Faults    int             `json:"history_programs_failed_by_injected_fault"`
	FPChecks  int             `json:"builtin_fingerprint_checks"`
	Distinct  map[string]bool `json:"-"`
	Keys      []string        `json:"distinct_keys"`
	Infra     int             `json:"infra_errors"`
	InfraMsgs []string        `json:"infra_msgs"`
	Samples   []interface{}   `json:"samples"`
	PlayAvail bool            `json:"playground_extracted"`
}

func newC19Stats() *C19Stats {
	return &C19Stats{HistKinds: map[string]int{}, ProbeKind: map[string]int{}, Frontends: map[string]int{}, Distinct: map[string]bool{}}
}
func (s *C19Stats) InfraCount() (int, []string) { return s.Infra, s.InfraMsgs }
func (s *C19Stats) MarshalJSON() ([]byte, error) {
	type plain C19Stats
	s.Keys = s.Keys[:0]
	for k := range s.Distinct {
		s.Keys = append(s.Keys, k)
	}
	sort.Strings(s.Keys)
	return json.Marshal((*plain)(s))
}
func (s *C19Stats) Merge(raw json.RawMessage) error {
	o := newC19Stats()
	type plain C19Stats
	if err := json.Unmarshal(raw, (*plain)(o)); err != nil {
		return err
	}
	s.Histories += o.Histories
	s.Steps += o.Steps
	s.Probes += o.Probes
	s.Fresh += o.Fresh
	s.Faults += o.Faults
	s.FPChecks += o.FPChecks
	s.Infra += o.Infra
	s.PlayAvail = s.PlayAvail || o.PlayAvail
	for k, v := range o.HistKinds {
		s.HistKinds[k] += v
	}
	for k, v := range o.ProbeKind {
		s.ProbeKind[k] += v
	}
	for k, v := range o.Frontends {
		s.Frontends[k] += v
	}
	for _, k := range o.Keys {
		s.Distinct[k] = true
	}
	if len(s.Samples) < 3 {
		s.Samples = append(s.Samples, o.Samples...)
	}
	if len(s.InfraMsgs) < 5 {
		s.InfraMsgs = append(s.InfraMsgs, o.InfraMsgs...)
	}
	return nil
}

type c19Check struct {
	it        *harness.Interp
	feNames   []string
	fpEnv     *object.Env
	child     bool
	baseFP    string
	fresh     map[string]probeResult
	tier      string
	freshFile string
}

func (c *c19Check) ID() string      { return "C19" }
func (c *c19Check) Level() string   { return "exploration" }
func (c *c19Check) Flavour() string { return "plain" }
func (c *c19Check) Runs(tier string) int {
	if tier == "thorough" {
		return 400000
	}
	return 3200
}
func (c *c19Check) BudgetS(tier string) int {
	if tier == "thorough" {
		return 1200
	}
	return 60
}
func (c *c19Check) NewStats() Stats { return newC19Stats() }
func (c *c19Check) Init(tier string) {
	c.tier = tier
	if c.freshFile != "" {
		return
	}
	// the reference: every probe through every front-end, each in its own new process
	c.fresh = map[string]probeResult{}
	fes := []string{"eval", "runsource"}
	if play.Available {
		fes = append(fes, "playground")
	}
	for _, fe := range fes {
		for _, p := range probes {
			if _, err := c.freshResult(fe, p); err != nil {
				fmt.Fprintln(os.Stderr, "INFRA:", err)
			}
		}
	}
	if HTTPAvailable {
		for i := range httpProbes {
			if _, err := c.freshResult("http", probeProg{kind: fmt.Sprint(i)}); err != nil {
				fmt.Fprintln(os.Stderr, "INFRA:", err)
			}
		}
	}
	f, err := os.CreateTemp(c.scratch(), "c19fresh-*.json")
	if err != nil {
		fmt.Fprintln(os.Stderr, "INFRA:", err)
		return
	}
	b, _ := json.Marshal(c.fresh)
	f.Write(b)
	f.Close()
	c.freshFile = f.Name()
}

// initChild: a history process sets up ONLY the front-end it is about to drive. (Setting up
// a second interpreter in one process is itself a history: props written in Pangaea stay
// bound to the scope - and the IO - of the first set-up; see the known finding about
// RunSource. An earlier version created all front-ends up front and so produced that
// effect itself, in front-ends that never do it on their own.)
func (c *c19Check) initChild() {
	c.child = true
	c.feNames = []string{"eval", "runsource"}
	if play.Available {
		c.feNames = append(c.feNames, "playground")
	}
}

func (c *c19Check) initFE(name string) frontend {
	var fe frontend
	switch name {
	case "eval":
		c.it = harness.NewInterp()
		c.fpEnv = c.it.Global
		fe = &evalFE{c.it}
	case "playground":
		fe = &playFE{play.NewExecutor()}
		c.fpEnv = object.NewEnvWithConsts()
	default:
		// RunSource sets an interpreter up per call; the first call of the process is the
		// one that populates the built-in objects, so it is made here (empty program)
		runscript.RunSource("", "warmup.pangaea", strings.NewReader(""), io.Discard)
		c.fpEnv = object.NewEnvWithConsts()
		fe = runSourceFE{}
	}
	c.baseFP = FingerprintBuiltins(c.fpEnv)
	return fe
}

// freshResult runs the probe through the same front-end in a newly started process.
func (c *c19Check) freshResult(fe string, p probeProg) (probeResult, error) {
	key := fe + "|" + p.kind
	if r, ok := c.fresh[key]; ok {
		return r, nil
	}
	if c.child {
		return probeResult{}, fmt.Errorf("no fresh reference for %s", key)
	}
	self, _ := os.Executable()
	cmd := exec.Command(self, "c19fresh", "-frontend", fe, "-probe", p.kind)
	var so, se bytes.Buffer
	cmd.Stdout, cmd.Stderr = &so, &se
	if err := cmd.Run(); err != nil {
		return probeResult{}, fmt.Errorf("fresh process failed: %v: %s", err, se.String())
	}
	var r probeResult
	if err := json.Unmarshal(so.Bytes(), &r); err != nil {
		return probeResult{}, fmt.Errorf("bad fresh output: %v: %.200s", err, so.String())
	}
	c.fresh[key] = r
	return r, nil
}

func c19Fresh(args []string) int {
	fs := flag.NewFlagSet("c19fresh", flag.ExitOnError)
	fe := fs.String("frontend", "eval", "")
	kind := fs.String("probe", "", "")
	dir := fs.String("testdir", "", "")
	fs.Parse(args)
	if *fe == "runtest" {
		r := runTestDir(*dir)
		b, _ := json.Marshal(r)
		os.Stdout.Write(b)
		return 0
	}
	if *fe == "http" {
		h, err := newHTTPHandler(harness.NewInterp())
		if err != nil {
			fmt.Fprintln(os.Stderr, err)
			return 2
		}
		var idx int
		fmt.Sscanf(*kind, "%d", &idx)
		if idx < 0 || idx >= len(httpProbes) {
			return 2
		}
		b, _ := json.Marshal(serveCaptured(h, httpProbes[idx]))
		os.Stdout.Write(b)
		return 0
	}
	var p *probeProg
	for i := range probes {
		if probes[i].kind == *kind {
			p = &probes[i]
		}
	}
	if p == nil {
		fmt.Fprintln(os.Stderr, "unknown probe")
		return 2
	}
	var f frontend
	switch *fe {
	case "eval":
		f = &evalFE{harness.NewInterp()}
	case "runsource":
		f = runSourceFE{}
	case "playground":
		f = &playFE{play.NewExecutor()}
	default:
		return 2
	}
	r := f.exec(p.src, p.stdin, -1)
	b, _ := json.Marshal(r)
	os.Stdout.Write(b)
	return 0
}

// runTestDir runs `pangaea test <dir>` in-process (cwd = dir so that paths are relative).
func runTestDir(dir string) probeResult {
	var out bytes.Buffer
	var res probeResult
	old, _ := os.Getwd()
	os.Chdir(dir)
	defer os.Chdir(old)
	res.Stderr = captureStderr(func() {
		defer func() {
			if r := recover(); r != nil {
				res.Err = fmt.Sprint("HOST PANIC ", r)
			}
		}()
		defer bounded()()
		res.Exit = runscript.RunTest(".", strings.NewReader(""), &out)
	})
	res.Stdout = out.String()
	return res
}

// Run executes one history in a newly started process (process-wide singletons cannot
// be reset, so a clean start per history is what makes a violation reproducible from
// its tape alone).
func (c *c19Check) Run(seed, run uint64, rec []uint32, st Stats, only *Viol) []Viol {
	s := st.(*C19Stats)
	self, _ := os.Executable()
	args := []string{"c19hist", "-seed", fmt.Sprint(seed), "-run", fmt.Sprint(run), "-fresh", c.freshFile}
	if rec != nil {
		f, err := os.CreateTemp(c.scratch(), "tape-*.json")
		if err == nil {
			b, _ := json.Marshal(rec)
			f.Write(b)
			f.Close()
			defer os.Remove(f.Name())
			args = append(args, "-tape", f.Name())
		}
	}
	ctx, cancel := context.WithTimeout(context.Background(), 3*time.Minute)
	defer cancel()
	cmd := exec.CommandContext(ctx, self, args...)
	var so, se bytes.Buffer
	cmd.Stdout, cmd.Stderr = &so, &se
	if err := cmd.Run(); err != nil {
		s.Infra++
		if len(s.InfraMsgs) < 5 {
			s.InfraMsgs = append(s.InfraMsgs, fmt.Sprintf("history process failed: %v: %s", err, clipStr(se.String(), 400)))
		}
		return nil
	}
	var out struct {
		Viols []Viol          `json:"viols"`
		Stats json.RawMessage `json:"stats"`
	}
	if err := json.Unmarshal(so.Bytes(), &out); err != nil {
		s.Infra++
		if len(s.InfraMsgs) < 5 {
			s.InfraMsgs = append(s.InfraMsgs, "bad history output: "+clipStr(so.String(), 300))
		}
		return nil
	}
	s.Merge(out.Stats)
	return out.Viols
}

func (c *c19Check) scratch() string {
	if d := os.Getenv("VERIF_SCRATCH"); d != "" {
		return d
	}
	return os.TempDir()
}

// c19Hist is the child: one history in this fresh process.
func c19Hist(args []string) int {
	fs := flag.NewFlagSet("c19hist", flag.ExitOnError)
	seed := fs.Uint64("seed", 1, "")
	run := fs.Uint64("run", 0, "")
	fresh := fs.String("fresh", "", "")
	tapeFile := fs.String("tape", "", "")
	fs.Parse(args)
	c := &c19Check{}
	c.initChild()
	if b, err := os.ReadFile(*fresh); err == nil {
		json.Unmarshal(b, &c.fresh)
	}
	var rec []uint32
	if *tapeFile != "" {
		b, err := os.ReadFile(*tapeFile)
		if err != nil || json.Unmarshal(b, &rec) != nil {
			fmt.Fprintln(os.Stderr, "INFRA: bad tape file")
			return 2
		}
	}
	st := newC19Stats()
	vs := c.runHistory(*seed, *run, rec, st)
	raw, _ := json.Marshal(st)
	b, _ := json.Marshal(map[string]interface{}{"viols": vs, "stats": json.RawMessage(raw)})
	os.Stdout.Write(b)
	return 0
}

func (c *c19Check) runHistory(seed, run uint64, rec []uint32, s *C19Stats) []Viol {
	s.PlayAvail = play.Available
	var t *tape.Tape
	if rec != nil {
		t = tape.Replay(rec)
	} else {
		t = tape.New(seed^hashID("C19"), run)
	}
	s.Histories++
	if run%5 == 4 {
		return c.runTestHistory(seed, run, t, s)
	}
	if run%5 == 3 && HTTPAvailable {
		return c.runHTTPHistory(seed, run, t, s)
	}
	var rng = t
	_ = rng
	fe := c.initFE(c.feNames[t.Intn(len(c.feNames))])
	s.Frontends[fe.name()]++
	nsteps := 1 + t.Intn(6)
	var hist []string
	var viols []Viol
	mk := func(sig string, p *probeProg, exp, act interface{}) {
		d := map[string]interface{}{"frontend": fe.name(), "history": append([]string(nil), hist...)}
		if p != nil {
			d["probe"] = p.src
		}
		viols = append(viols, Viol{Prop: "C19", Run: run, Seed: seed, Tape: append([]uint32(nil), t.Rec...), Engine: "session", Signature: sig,
			Derived: d, Expected: map[string]interface{}{"fresh_process": exp}, Actual: map[string]interface{}{"after_history": act}})
	}
	var kinds []string
	for i := 0; i < nsteps && len(viols) == 0; i++ {
		h := genHistory(t, fmt.Sprintf("%d_%d", run, i))
		s.Steps++
		s.HistKinds[h.kind]++
		kinds = append(kinds, h.kind)
		r := fe.exec(h.src, h.stdin, h.faultAt)
		if strings.Contains(r.Err, "hist fault") || strings.Contains(r.Stderr, "hist fault") {
			s.Faults++
		}
		hist = append(hist, fmt.Sprintf("[%s fault@%d] %s", h.kind, h.faultAt, h.src))
		// (1) built-in singletons unchanged
		s.FPChecks++
		if fp := FingerprintBuiltins(c.fpEnv); fp != c.baseFP {
			name, a, b := firstDiffLine(c.baseFP, fp)
			mk(fmt.Sprintf("C19/%s/builtin-changed/%s", fe.name(), name), nil, clipStr(a, 600), clipStr(b, 600))
			break
		}
		if bad := symtabIntegrity(h.src + " zz_probe_key yy_probe_key"); bad != "" {
			mk(fmt.Sprintf("C19/%s/symtab-entry-changed", fe.name()), nil, "every interned symbol converts back to a plain Str with its own text", bad)
			break
		}
		// (2) a probe behaves as in a new process
		p := probes[t.Intn(len(probes))]
		s.Probes++
		s.ProbeKind[p.kind]++
		want, err := c.freshResult(fe.name(), p)
		if err != nil {
			s.Infra++
			if len(s.InfraMsgs) < 5 {
				s.InfraMsgs = append(s.InfraMsgs, err.Error())
			}
			return nil
		}
		got := fe.exec(p.src, p.stdin, -1)
		hist = append(hist, fmt.Sprintf("[probe %s] %s", p.kind, p.src))
		if d := got.diff(want); d != "" {
			mk(fmt.Sprintf("C19/%s/probe-differs/%s/%s", fe.name(), p.kind, d), &p, want, got)
			break
		}
		// the probe is itself an evaluated program: it must leave the built-ins alone too
		s.FPChecks++
		if fp := FingerprintBuiltins(c.fpEnv); fp != c.baseFP {
			name, a, b := firstDiffLine(c.baseFP, fp)
			mk(fmt.Sprintf("C19/%s/builtin-changed/%s", fe.name(), name), &p, clipStr(a, 600), clipStr(b, 600))
			break
		}
		s.Distinct[fe.name()+"|"+strings.Join(kinds, ",")+"|"+p.kind] = true
	}
	if len(s.Samples) < 2 {
		s.Samples = append(s.Samples, map[string]interface{}{"frontend": fe.name(), "history": hist})
	}
	return viols
}

// runHTTPHistory: a server built by the real http module handles a history of requests
// (failing handlers, handlers touching `_`, handlers assigning variables, new JSON keys
// and header names); after each, a probe request must be answered as by a new process.
func (c *c19Check) runHTTPHistory(seed, run uint64, t *tape.Tape, s *C19Stats) []Viol {
	s.Frontends["http"]++
	c.it = harness.NewInterp()
	h, err := newHTTPHandler(c.it)
	if err != nil {
		s.Infra++
		if len(s.InfraMsgs) < 5 {
			s.InfraMsgs = append(s.InfraMsgs, err.Error())
		}
		return nil
	}
	base := FingerprintBuiltins(c.it.Global)
	var hist []string
	n := 1 + t.Intn(6)
	var kinds []string
	for i := 0; i < n; i++ {
		rq := genHTTPHistory(t, fmt.Sprintf("%d_%d", run, i))
		got := serveCaptured(h, rq)
		s.Steps++
		kind := strings.SplitN(strings.TrimPrefix(rq.Target, "/"), "?", 2)[0]
		if i := strings.IndexAny(kind, "/0123456789"); i > 0 {
			kind = kind[:i]
		}
		s.HistKinds["http-"+kind]++
		kinds = append(kinds, kind)
		hist = append(hist, fmt.Sprintf("%s %s %s -> %s", rq.Method, rq.Target, rq.Body, clipStr(got.Stdout, 80)))
		mk := func(sig string, exp, act interface{}) []Viol {
			return []Viol{{Prop: "C19", Run: run, Seed: seed, Tape: append([]uint32(nil), t.Rec...), Engine: "session", Signature: sig,
				Derived:  map[string]interface{}{"frontend": "http", "history": append([]string(nil), hist...)},
				Expected: map[string]interface{}{"fresh_process": exp}, Actual: map[string]interface{}{"after_history": act}}}
		}
		s.FPChecks++
		if fp := FingerprintBuiltins(c.it.Global); fp != base {
			name, a, b := firstDiffLine(base, fp)
			return mk("C19/http/builtin-changed/"+name, clipStr(a, 600), clipStr(b, 600))
		}
		pi := t.Intn(len(httpProbes))
		want, err := c.freshResult("http", probeProg{kind: fmt.Sprint(pi)})
		if err != nil {
			s.Infra++
			return nil
		}
		p := httpProbes[pi]
		gotP := serveCaptured(h, p)
		s.Probes++
		s.ProbeKind["http "+p.Target]++
		hist = append(hist, fmt.Sprintf("[probe] %s %s -> %s", p.Method, p.Target, clipStr(gotP.Stdout, 80)))
		if d := gotP.diff(want); d != "" {
			return mk(fmt.Sprintf("C19/http/probe-differs/%s/%s", strings.SplitN(p.Target, "?", 2)[0], d), want, gotP)
		}
		s.Distinct["http|"+strings.Join(kinds, ",")+"|"+p.Target] = true
	}
	return nil
}

// runTestHistory: `pangaea test dir` with history files sorted before the probe file.
func (c *c19Check) runTestHistory(seed, run uint64, t *tape.Tape, s *C19Stats) []Viol {
	s.Frontends["runtest"]++
	base := os.Getenv("VERIF_SCRATCH")
	if base == "" {
		base = os.TempDir()
	}
	dirH, err1 := os.MkdirTemp(base, "c19h-")
	dirF, err2 := os.MkdirTemp(base, "c19f-")
	if err1 != nil || err2 != nil {
		s.Infra++
		return nil
	}
	defer os.RemoveAll(dirH)
	defer os.RemoveAll(dirF)
	// history files must pass (RunTest stops at the first failing file), so they only define things
	n := 1 + t.Intn(3)
	var hist []string
	// a library file next to the tests, pulled in by relative import / invite!
	// (it prints while it is loaded and exports an iterator: a program that imports it gets
	// its own evaluation of the file, whatever earlier programs imported)
	lib := "libval := 41\npx := \"from lib\"\nlibf := {|a| a + libval}\n\"lib loaded\".p\ncounter := <{|i| yield i; recur(i + 1)}>.new(100)\n"
	os.WriteFile(filepath.Join(dirH, "a0_lib.pangaea"), []byte(lib), 0o644)
	os.WriteFile(filepath.Join(dirF, "a0_lib.pangaea"), []byte(lib), 0o644)
	// ... and one that fails while it is loaded (whoever imports it gets that failure, every time)
	bad := "okBefore := 1\n\"bad lib loading\".p\nundefinedName + 1\nneverReached := 2\n"
	// (outside the test directories: the runner evaluates every file it finds there)
	dirL, err3 := os.MkdirTemp(base, "c19l-")
	if err3 != nil {
		s.Infra++
		return nil
	}
	defer os.RemoveAll(dirL)
	os.WriteFile(filepath.Join(dirL, "bad.pangaea"), []byte(bad), 0o644)
	badPath := "../" + filepath.Base(dirL) + "/bad"
	for i := 0; i < n; i++ {
		src := []string{
			"invite!(\"./a0_lib\")\nlibf(1).p\nq := libval\n",
			"m := import(\"./a0_lib\")\nm.libval.p\nprobe := m.px\nm.counter.next.p\n",
			"invite!(\"./a0_lib\")\n[counter.next, counter.next].p\n",
			"px := 99\npf := {|a| a * 100}\npobj := {name: \"hist\"}\nprobe := 3\n",
			"1.try.{|x| _}.A\nhx1 := 5\n",
			"Int.bear({twice: m{self * 2}})\nq := 7\n",
			"S := {|i| i}\nS1 := 4\n\"hist\".p\n",
			"", "", "rich", "wide",
			"r := 1.try.{|x| import(\"" + badPath + "\")}\nr.err?.p\nq := 3\n",
			"r := 1.try.{|x| invite!(\"" + badPath + "\")}\n[r.err?, r.err.type == NameErr].p\n",
		}[t.Intn(13)]
		if src == "wide" {
			src = "{|| \\0.len}(1, 2, 3, 4, 5, 6, 7, 8, 9, 10, 11, 12, 13).p\n{\\12}(1, 2, 3, 4, 5, 6, 7, 8, 9, 10, 11, 12).p\n"
		}
		if src == "" {
			src = handledSyntax(t)
		}
		if src == "rich" {
			src = richSyntax
		}
		os.WriteFile(filepath.Join(dirH, fmt.Sprintf("a%d_hist_test.pangaea", i+1)), []byte(src), 0o644)
		hist = append(hist, src)
		s.Steps++
		s.HistKinds["runtest-file"]++
	}
	p := probes[t.Intn(len(probes))]
	if p.kind == "stdin" {
		p = probes[0]
	}
	if t.Chance(1, 3) {
		// probes that load the library file themselves
		p = []probeProg{
			{"import-lib", "m := import(\"./a0_lib\")\n[m.libval, m.counter.next, m.counter.next].p\nm.nosuch\n", ""},
			{"invite-lib", "invite!(\"./a0_lib\")\n[libf(1), counter.next].p\n", ""},
			{"import-lib-twice", "a := import(\"./a0_lib\")\nb := import(\"./a0_lib\")\n[a.counter.next, b.counter.next, a.counter.next].p\n", ""},
			{"import-bad-caught", "r := 1.try.{|x| import(\"" + badPath + "\")}\n[r.err?, r.err.type, r.err.msg].p\nr2 := 1.try.{|x| import(\"" + badPath + "\")}\nr2.err.msg.p\n", ""},
			{"import-bad-uncaught", "\"before\".p\nimport(\"" + badPath + "\")\n\"after\".p\n", ""},
		}[t.Intn(5)]
	}
	s.Probes++
	s.ProbeKind[p.kind]++
	os.WriteFile(filepath.Join(dirH, "zz_probe_test.pangaea"), []byte(p.src), 0o644)
	os.WriteFile(filepath.Join(dirF, "zz_probe_test.pangaea"), []byte(p.src), 0o644)
	got := runTestDir(dirH)
	// fresh: a new process running only the probe file
	self, _ := os.Executable()
	cmd := exec.Command(self, "c19fresh", "-frontend", "runtest", "-testdir", dirF)
	var so, se bytes.Buffer
	cmd.Stdout, cmd.Stderr = &so, &se
	var want probeResult
	if err := cmd.Run(); err != nil || json.Unmarshal(so.Bytes(), &want) != nil {
		s.Infra++
		if len(s.InfraMsgs) < 5 {
			s.InfraMsgs = append(s.InfraMsgs, fmt.Sprintf("fresh runtest failed: %v %s", err, se.String()))
		}
		return nil
	}
	s.Fresh++
	// compare the probe file's part of the output only
	cut := func(x string) string {
		if i := strings.Index(x, "run:  zz_probe_test.pangaea"); i >= 0 {
			return x[i:]
		}
		return "<probe file not run>\n" + x
	}
	g, w := got, want
	g.Stdout, w.Stdout = cut(got.Stdout), cut(want.Stdout)
	s.Distinct[fmt.Sprintf("runtest|%d|%s", n, p.kind)] = true
	if d := g.diff(w); d != "" {
		return []Viol{{Prop: "C19", Run: run, Seed: seed, Tape: append([]uint32(nil), t.Rec...), Engine: "session",
			Signature: fmt.Sprintf("C19/runtest/probe-differs/%s/%s", p.kind, d),
			Derived:   map[string]interface{}{"frontend": "runtest", "history_files": hist, "probe": p.src},
			Expected:  map[string]interface{}{"fresh_process": w}, Actual: map[string]interface{}{"after_history": g}}}
	}
	return nil
}

func (c *c19Check) Evidence(st Stats, tier string) (map[string]interface{}, []string) {
	s := st.(*C19Stats)
	cov := map[string]interface{}{
		"evaluations":         s.Steps + s.Probes,
		"distinct_nontrivial": len(s.Distinct),
		"rule":                "one case = (front-end, history of 1..6 tape-chosen programs incl. programs failing at an injected step, syntax errors, `_`, Either's abstract props, definitions of the probe's names, imports, evalEnv, prototype extension attempts, half-consumed stdin; probe program after every step) compared with the same probe in a newly started OS process through the same front-end; distinct_nontrivial = distinct (front-end, history-kind sequence, probe) triples",
		"samples":             s.Samples,
		"histories":           s.Histories,
		"history_steps":       s.Steps,
		"probes_run":          s.Probes,
		"history_kinds":       s.HistKinds,
		"probe_kinds":         s.ProbeKind,
		"frontends":           s.Frontends,
		"history_programs_failed_by_injected_fault": s.Faults,
		"builtin_fingerprint_checks":                s.FPChecks,
		"playground_execute_extracted_from_tree":    s.PlayAvail,
		"infra_errors":                              s.Infra,
		"simulated_time":                            "none; steps = programs evaluated",
		"real_vs_stub": map[string]string{
			"real": "interpreter; runscript.RunSource / RunTest; Executor.execute + setupEnv extracted verbatim from web/wasm/executor.go (only parser.Parse(src) adapted to the tree's parser.NewReader API)",
			"stub": "browser/JS glue of the playground; HTTP server front-end is represented by bare Parse+Eval in NewEnclosedEnv(global)",
		},
	}
	if len(s.Samples) == 0 {
		cov["samples"] = []interface{}{"(none)"}
	}
	return cov, []string{
		"'newly started interpreter' = a new OS process running the same front-end with an empty history",
		"probes avoid constructs whose result legitimately depends on inputs (absolute paths, environment)",
	}
}

func init() { register("C19", func() Check { return &c19Check{} }) }
