//go:build verifhttp

package checks

import (
	"fmt"
	"net/http"
	"net/http/httptest"
	"sort"
	"strings"

	"github.com/Syuparn/pangaea/object"
	httpbuiltin "github.com/Syuparn/pangaea/props/modules/http/builtin"

	"verifsim/harness"
)

// HTTPAvailable: the overlay exposing the echo router compiled against the tree.
const HTTPAvailable = true

// httpServerScript defines the handlers of the simulated server through the real
// http module (native/modules/http.pangaea + props/modules/http/builtin).
const httpServerScript = `invite!("http")
hits := 0
srv := _internal['newServer](
  S.get("users/:id") {|req| {id: req.params.id, q: req.queries}},
  S.post("hdr") {|req| Response.new(status: 201, body: "ok", headers: req.body.decJSON)},
  S.get("env") {|req| "h_a := 1; h_b := 2".evalEnv.S},
  S.get("fail") {|req| raise ValueErr.new("handler boom " + req.queries.msg[0])},
  S.get("notimpl") {|req| _},
  S.get("leak") {|req| leaked := req.queries.v[0]; hits += 1; "#{leaked} #{hits}"},
  S.get("probe") {|req| [leaked, hits].S},
  S.get("zero") {|req| {v: 1 / 0}},
  S.get("hello") {|req| "hello " + (req.queries.name[0] || "nobody")},
)
`

// newHTTPHandler builds the server in a fresh scope of the interpreter.
func newHTTPHandler(it *harness.Interp) (http.Handler, error) {
	prog, err := harness.Parse(httpServerScript)
	if err != nil {
		return nil, err
	}
	r := it.Run(prog, nil)
	if r.Err != nil || r.Panic != "" {
		return nil, fmt.Errorf("server script failed: %v %s", r.Err, r.Panic)
	}
	srv, ok := r.Scope.Get(object.GetSymHash("srv"))
	if !ok {
		return nil, fmt.Errorf("srv not defined")
	}
	h := httpbuiltin.VerifHTTPHandler(srv)
	if h == nil {
		return nil, fmt.Errorf("not a server object: %s", srv.Inspect())
	}
	return h, nil
}

type httpReq struct {
	Method, Target, Body string
	Header               map[string]string
}

// serveOnce performs one request in memory and renders the response canonically.
func serveOnce(h http.Handler, rq httpReq) (out string) {
	defer func() {
		if r := recover(); r != nil {
			out = fmt.Sprint("HOST PANIC ", r)
		}
	}()
	var body *strings.Reader
	if rq.Body != "" {
		body = strings.NewReader(rq.Body)
	}
	var req *http.Request
	if body != nil {
		req = httptest.NewRequest(rq.Method, rq.Target, body)
		req.Header.Set("Content-Type", "application/json")
	} else {
		req = httptest.NewRequest(rq.Method, rq.Target, nil)
	}
	for k, v := range rq.Header {
		req.Header.Set(k, v)
	}
	rec := httptest.NewRecorder()
	h.ServeHTTP(rec, req)
	var hs []string
	for k, v := range rec.Header() {
		hs = append(hs, k+"="+strings.Join(v, ","))
	}
	sort.Strings(hs)
	return fmt.Sprintf("%d %s | %s", rec.Code, strings.TrimSpace(rec.Body.String()), strings.Join(hs, ";"))
}
