//go:build verifseam

package checks

import (
	"crypto/sha1"
	"encoding/json"
	"fmt"
	"sort"
	"strings"
	"time"

	"github.com/Syuparn/pangaea/object"
	seam "github.com/Syuparn/pangaea/verifseam"

	"verifsim/gen"
	"verifsim/harness"
	"verifsim/tape"
)

// C08 = S1 source-order model (CALLEE, canonical map order)
//     + S2 run-vs-run equality under seeded hash-map iteration orders (MAPSEAM)
//     + S3 start-up under seeded goroutine schedules (SCHED): same built-ins, same probe results.

type C08Stats struct {
	CF          *CFStats        `json:"cf"`
	S2Programs  int             `json:"s2_programs"`
	S2Evals     int             `json:"s2_evaluations"`
	S2Policies  map[string]int  `json:"s2_policies"`
	S2Sites     map[string]int  `json:"s2_map_range_sites_hit"`
	S2Perms     map[string]bool `json:"-"`
	S2PermKeys  []string        `json:"s2_perm_keys"`
	S2Permuted  int64           `json:"s2_map_ranges_permuted"`
	S2HistLines int             `json:"s2_history_lines"`
	S3Runs      int             `json:"s3_startup_schedules"`
	S3Scheds    map[string]bool `json:"-"`
	S3Keys      []string        `json:"s3_sched_keys"`
	S3Switches  int64           `json:"s3_switches"`
	S3MapOrd    int             `json:"s3_with_permuted_map_order"`
	Infra       int             `json:"infra_errors"`
	InfraMsgs   []string        `json:"infra_msgs"`
	Samples     []interface{}   `json:"samples"`
}

func newC08Stats() *C08Stats {
	return &C08Stats{CF: newCFStats(), S2Policies: map[string]int{}, S2Sites: map[string]int{}, S2Perms: map[string]bool{}, S3Scheds: map[string]bool{}}
}
func (s *C08Stats) InfraCount() (int, []string) { return s.Infra, s.InfraMsgs }
func (s *C08Stats) MarshalJSON() ([]byte, error) {
	type plain C08Stats
	s.S2PermKeys = s.S2PermKeys[:0]
	for k := range s.S2Perms {
		s.S2PermKeys = append(s.S2PermKeys, k)
	}
	sort.Strings(s.S2PermKeys)
	s.S3Keys = s.S3Keys[:0]
	for k := range s.S3Scheds {
		s.S3Keys = append(s.S3Keys, k)
	}
	sort.Strings(s.S3Keys)
	return json.Marshal((*plain)(s))
}
func (s *C08Stats) Merge(raw json.RawMessage) error {
	var aux struct {
		CF          json.RawMessage `json:"cf"`
		S2Programs  int             `json:"s2_programs"`
		S2Evals     int             `json:"s2_evaluations"`
		S2Policies  map[string]int  `json:"s2_policies"`
		S2Sites     map[string]int  `json:"s2_map_range_sites_hit"`
		S2PermKeys  []string        `json:"s2_perm_keys"`
		S2Permuted  int64           `json:"s2_map_ranges_permuted"`
		S2HistLines int             `json:"s2_history_lines"`
		S3Runs      int             `json:"s3_startup_schedules"`
		S3Keys      []string        `json:"s3_sched_keys"`
		S3Switches  int64           `json:"s3_switches"`
		S3MapOrd    int             `json:"s3_with_permuted_map_order"`
		Infra       int             `json:"infra_errors"`
		InfraMsgs   []string        `json:"infra_msgs"`
		Samples     []interface{}   `json:"samples"`
	}
	if err := json.Unmarshal(raw, &aux); err != nil {
		return err
	}
	if err := s.CF.Merge(aux.CF); err != nil {
		return err
	}
	s.S2Programs += aux.S2Programs
	s.S2Evals += aux.S2Evals
	s.S2Permuted += aux.S2Permuted
	s.S2HistLines += aux.S2HistLines
	s.S3Runs += aux.S3Runs
	s.S3Switches += aux.S3Switches
	s.S3MapOrd += aux.S3MapOrd
	s.Infra += aux.Infra
	for k, v := range aux.S2Policies {
		s.S2Policies[k] += v
	}
	for k, v := range aux.S2Sites {
		s.S2Sites[k] += v
	}
	for _, k := range aux.S2PermKeys {
		s.S2Perms[k] = true
	}
	for _, k := range aux.S3Keys {
		s.S3Scheds[k] = true
	}
	if len(s.Samples) < 4 {
		s.Samples = append(s.Samples, aux.Samples...)
	}
	if len(s.InfraMsgs) < 5 {
		s.InfraMsgs = append(s.InfraMsgs, aux.InfraMsgs...)
	}
	return nil
}

type c08Check struct {
	it    *harness.Interp
	tier  string
	hist  *c06Check
	refFP string   // start-up fingerprint of this (unscheduled) process
	refPr []string // probe results of this process
}

func (c *c08Check) ID() string      { return "C08" }
func (c *c08Check) Level() string   { return "exploration" }
func (c *c08Check) Flavour() string { return "seam" }
func (c *c08Check) Runs(tier string) int {
	if tier == "thorough" {
		return 600000
	}
	return 12000
}
func (c *c08Check) BudgetS(tier string) int {
	if tier == "thorough" {
		return 1500
	}
	return 60
}
func (c *c08Check) NewStats() Stats { return newC08Stats() }
func (c *c08Check) Init(tier string) {
	c.tier = tier
	if c.it == nil {
		c.it = harness.NewInterp()
		c.refFP = fingerprintBuiltins(c.it.Global)
		for _, p := range startupProbes {
			c.refPr = append(c.refPr, probeOnce(c.it, p))
		}
	}
}

func probeOnce(it *harness.Interp, p string) string {
	prog, err := harness.Parse(p)
	if err != nil {
		return "PARSE " + err.Error()
	}
	r := it.Run(prog, nil)
	switch {
	case r.Panic != "":
		return "PANIC " + r.Panic
	case r.Err != nil:
		return "ERR " + r.Err.Inspect()
	}
	return r.Obj.Inspect()
}

func richProfile(t *tape.Tape) gen.Profile {
	p := stdProfile(t)
	p.MultiKw = true
	p.VarCallArgs = true
	p.JumpW = []int{0, 0, 2}[t.Intn(3)]
	return p
}

// mapPolicy is one way of ordering every dynamic map range of a run.
type mapPolicy struct {
	kind     string // identity reverse rotate random
	rot      int
	seed     uint64
	pinned   map[string]bool // sites forced to canonical order
	only     map[string]bool // if non-nil: only these sites are permuted
	hits     map[string]int
	permuted int64
	sig      []byte
}

func (p *mapPolicy) order(site string, n int) []int {
	if p.hits != nil {
		p.hits[site]++
	}
	perm := make([]int, n)
	for i := range perm {
		perm[i] = i
	}
	if p.kind == "identity" || p.pinned[site] || (p.only != nil && !p.only[site]) {
		return perm
	}
	p.permuted++
	switch p.kind {
	case "reverse":
		for i := range perm {
			perm[i] = n - 1 - i
		}
	case "rotate":
		r := p.rot % n
		for i := range perm {
			perm[i] = (i + r) % n
		}
	case "random":
		for i := 0; i < n-1; i++ {
			p.seed += 0x9E3779B97F4A7C15
			z := p.seed
			z = (z ^ (z >> 30)) * 0xBF58476D1CE4E5B9
			z = (z ^ (z >> 27)) * 0x94D049BB133111EB
			z ^= z >> 31
			j := i + int(z%uint64(n-i))
			perm[i], perm[j] = perm[j], perm[i]
		}
	}
	if len(p.sig) < 4096 {
		for _, x := range perm {
			p.sig = append(p.sig, byte(x))
		}
	}
	return perm
}

type runPrint struct {
	stdout, outcome, trace, stack string
}

func (c *c08Check) evalUnder(src string, defaults map[int]harness.Ret, pol *mapPolicy) (runPrint, bool) {
	prog, err := harness.Parse(src)
	if err != nil {
		return runPrint{}, false
	}
	seam.MapOrder = pol.order
	seam.SetFuel(400000)
	var r harness.Result
	func() {
		defer func() {
			if x := recover(); x != nil {
				r.Panic = fmt.Sprint(x)
			}
			seam.MapOrder = nil
			seam.SetFuel(0)
		}()
		r = c.it.Run(prog, &harness.Callee{Defaults: defaults})
	}()
	if strings.Contains(r.Panic, "fuel exhausted") {
		return runPrint{}, false
	}
	p := runPrint{stdout: r.Stdout, trace: idsString(harness.TraceIDs(r.Trace))}
	switch {
	case r.Panic != "":
		p.outcome = "HOST PANIC " + r.Panic
	case r.Err != nil:
		p.outcome = "Raise " + r.Err.Inspect()
		p.stack = r.Err.StackTrace
	case r.Obj != nil:
		p.outcome = "Value " + r.Obj.Inspect() + " | " + r.Obj.Repr()
	}
	return p, true
}

func diffField(a, b runPrint) string {
	switch {
	case a.trace != b.trace:
		return "trace"
	case a.stdout != b.stdout:
		return "stdout"
	case a.outcome != b.outcome:
		return "outcome"
	case a.stack != b.stack:
		return "stacktrace"
	}
	return ""
}

func (c *c08Check) Run(seed, run uint64, rec []uint32, st Stats, only *Viol) []Viol {
	s := st.(*C08Stats)
	var t *tape.Tape
	if rec != nil {
		t = tape.Replay(rec)
	} else {
		t = tape.New(seed^hashID("C08"), run)
	}
	stage := int(run % 16)
	if only != nil {
		if x, ok := only.Derived["stage"].(float64); ok {
			stage = int(x)
		}
	} else if rec != nil {
		// shrinking keeps the stage of the original run (it is run-derived, not tape-derived)
	}
	switch {
	case stage == 0:
		return c.stage3(seed, run, t, s, only)
	case stage%2 == 1:
		// S1: source order against the model, canonical map order
		cfg := CFConfig{Prop: "C08", JudgeClean: true, Faults: false, Profile: richProfile, Relayout: true}
		vs := CFRun(c.it, cfg, t, seed, run, s.CF, -1, "")
		for i := range vs {
			vs[i].Derived["stage"] = stage
		}
		return vs
	default:
		return c.stage2(seed, run, t, s, stage)
	}
}

// stage2Hist: a free-form history over built-in properties (the C06 generator) is
// recorded under the canonical map order and replayed line by line under permuted
// orders; every line must give the same result.
func (c *c08Check) stage2Hist(seed, run uint64, t *tape.Tape, s *C08Stats, stage int) []Viol {
	if c.hist == nil {
		c.hist = &c06Check{it: c.it}
		c.hist.Init(c.tier)
	}
	var lines []c06Line
	c.hist.runHist(seed, run, t, newC06Stats(), &lines)
	if len(lines) == 0 {
		return nil
	}
	s.S2Programs++
	s.S2HistLines += len(lines)
	replay := func(pol *mapPolicy) []string {
		env := object.NewEnclosedEnv(c.it.Global)
		out := make([]string, len(lines))
		for i, l := range lines {
			prog, err := harness.Parse(l.Src)
			if err != nil {
				out[i] = "PARSE"
				continue
			}
			seam.MapOrder = pol.order
			seam.SetFuel(200000)
			r := c.it.RunIn(prog, &harness.Callee{Plan: l.Plan, Limit: 5000}, env)
			seam.SetFuel(0)
			seam.MapOrder = nil
			out[i] = describeResult(r) + " | stdout=" + clipStr(r.Stdout, 200)
		}
		return out
	}
	base := replay(&mapPolicy{kind: "identity"})
	s.S2Evals += len(lines)
	for i := 0; i < 3; i++ {
		pol := &mapPolicy{hits: map[string]int{}}
		switch t.Pick(2, 2, 3) {
		case 0:
			pol.kind = "reverse"
		case 1:
			pol.kind = "rotate"
			pol.rot = 1 + t.Intn(7)
		default:
			pol.kind = "random"
			pol.seed = uint64(t.U32())<<32 | uint64(t.U32())
		}
		got := replay(pol)
		s.S2Evals += len(lines)
		s.S2Policies[pol.kind]++
		s.S2Permuted += pol.permuted
		for k, v := range pol.hits {
			s.S2Sites[k] += v
		}
		s.S2Perms[fmt.Sprintf("%x", sha1.Sum(pol.sig))[:16]] = true
		for j := range lines {
			if got[j] == base[j] {
				continue
			}
			// attribute: which site, reversed alone, changes this history?
			var need []string
			sites := make([]string, 0, len(pol.hits))
			for k := range pol.hits {
				sites = append(sites, k)
			}
			sort.Strings(sites)
			for _, site := range sites {
				g2 := replay(&mapPolicy{kind: "reverse", only: map[string]bool{site: true}})
				for k := range g2 {
					if g2[k] != base[k] {
						need = append(need, site)
						break
					}
				}
			}
			sig := "C08/maporder/" + strings.Join(need, "+")
			if len(need) == 0 {
				sig = "C08/maporder/unattributed"
			}
			var hist []string
			for k := 0; k <= j; k++ {
				hist = append(hist, lines[k].Src)
			}
			return []Viol{{Prop: "C08", Run: run, Seed: seed, Tape: append([]uint32(nil), t.Rec...), Engine: "mapseam", Signature: sig,
				Derived:  map[string]interface{}{"stage": stage, "history": hist, "policy": pol.kind, "responsible_map_range_sites": need, "differs_at_line": lines[j].Src},
				Expected: map[string]interface{}{"canonical_order": base[j]}, Actual: map[string]interface{}{"permuted_order": got[j]}}}
		}
	}
	return nil
}

func (c *c08Check) stage2(seed, run uint64, t *tape.Tape, s *C08Stats, stage int) []Viol {
	if stage%4 == 0 {
		return c.stage2Hist(seed, run, t, s, stage)
	}
	var src string
	var defaults map[int]harness.Ret
	if t.Chance(1, 3) {
		p := gen.Generate(t, richProfile(t))
		src, defaults = p.Source(), defaultsOf(p)
	} else {
		src = gen.HashProgram(t)
	}
	s.S2Programs++
	base, ok := c.evalUnder(src, defaults, &mapPolicy{kind: "identity", hits: map[string]int{}})
	if !ok {
		return nil
	}
	s.S2Evals++
	if len(s.Samples) < 2 {
		s.Samples = append(s.Samples, map[string]interface{}{"stage": "S2", "program": src, "stdout_identity": clipStr(base.stdout, 300)})
	}
	npol := 4
	if c.tier == "thorough" {
		npol = 12
	}
	for i := 0; i < npol; i++ {
		pol := &mapPolicy{hits: map[string]int{}}
		switch t.Pick(2, 2, 3) {
		case 0:
			pol.kind = "reverse"
		case 1:
			pol.kind = "rotate"
			pol.rot = 1 + t.Intn(7)
		default:
			pol.kind = "random"
			pol.seed = uint64(t.U32())<<32 | uint64(t.U32())
		}
		got, ok := c.evalUnder(src, defaults, pol)
		if !ok {
			continue
		}
		s.S2Evals++
		s.S2Policies[pol.kind]++
		s.S2Permuted += pol.permuted
		for k, v := range pol.hits {
			s.S2Sites[k] += v
		}
		s.S2Perms[fmt.Sprintf("%x", sha1.Sum(pol.sig))[:16]] = true
		what := diffField(base, got)
		if what == "" {
			continue
		}
		// which sites are responsible? pin one site at a time to canonical order
		var need []string
		sites := make([]string, 0, len(pol.hits))
		for k := range pol.hits {
			sites = append(sites, k)
		}
		sort.Strings(sites)
		for _, site := range sites {
			p2 := &mapPolicy{kind: pol.kind, rot: pol.rot, seed: pol.seed, pinned: map[string]bool{site: true}}
			if pol.kind == "random" {
				// a random policy is not comparable after pinning (draws shift): use reverse for attribution
				p2.kind = "reverse"
			}
			g2, ok := c.evalUnder(src, defaults, p2)
			if ok && diffField(base, g2) == "" {
				need = append(need, site)
			}
		}
		if len(need) == 0 {
			// try single sites alone
			for _, site := range sites {
				p2 := &mapPolicy{kind: "reverse", only: map[string]bool{site: true}}
				g2, ok := c.evalUnder(src, defaults, p2)
				if ok && diffField(base, g2) != "" {
					need = append(need, site)
				}
			}
		}
		sig := "C08/maporder/" + strings.Join(need, "+")
		if len(need) == 0 {
			sig = "C08/maporder/unattributed"
		}
		return []Viol{{Prop: "C08", Run: run, Seed: seed, Tape: append([]uint32(nil), t.Rec...), Engine: "mapseam", Signature: sig,
			Derived:  map[string]interface{}{"stage": stage, "program": src, "policy": pol.kind, "responsible_map_range_sites": need, "differs_in": what},
			Expected: map[string]interface{}{"stdout": clipStr(base.stdout, 1500), "outcome": clipStr(base.outcome, 600), "trace": base.trace},
			Actual:   map[string]interface{}{"stdout": clipStr(got.stdout, 1500), "outcome": clipStr(got.outcome, 600), "trace": got.trace}}}
	}
	return nil
}

func (c *c08Check) stage3(seed, run uint64, t *tape.Tape, s *C08Stats, only *Viol) []Viol {
	var explicit *schedOut
	if only != nil {
		if sched, ok := only.Derived["schedule"]; ok {
			b, _ := json.Marshal(sched)
			var sw []map[string]uint32
			json.Unmarshal(b, &sw)
			explicit = &schedOut{Tape: only.Tape, Switches: sw}
		}
	}
	// half of the start-up runs also permute every map range (di.toPairs,
	// mergePropContainers, AddPairs, InjectFrom ...) with a tape-chosen policy
	var extra []string
	mapord := ""
	if only != nil {
		mapord, _ = only.Derived["maporder"].(string)
	} else if t.Chance(1, 2) {
		mapord = fmt.Sprintf("%s:%d", []string{"reverse", "rotate", "random"}[t.Intn(3)], t.U32())
	}
	if mapord != "" {
		extra = []string{"-maporder", mapord}
		s.S3MapOrd++
	}
	out, stderr, err := runSchedChild("startup", seed, run, explicit, 120*time.Second, extra...)
	if err != nil {
		s.Infra++
		if len(s.InfraMsgs) < 5 {
			s.InfraMsgs = append(s.InfraMsgs, err.Error()+": "+clipStr(stderr, 500))
		}
		return nil
	}
	if out.Deadlock {
		s.Infra++
		return nil
	}
	s.S3Runs++
	s.S3Scheds[out.SchedHash] = true
	s.S3Switches += int64(len(out.Switches))
	if len(s.Samples) < 3 {
		s.Samples = append(s.Samples, map[string]interface{}{"stage": "S3", "tasks": out.Tasks, "yields": out.Yields, "switches": len(out.Switches), "schedule_head": headSwitches(out.Switches, 10)})
	}
	mk := func(sig string, exp, act interface{}) []Viol {
		return []Viol{{Prop: "C08", Run: run, Seed: seed, Tape: out.Tape, Engine: "sched", Signature: sig,
			Derived:  map[string]interface{}{"stage": 0, "mode": "startup", "schedule": out.Switches, "sched_hash": out.SchedHash, "maporder": mapord},
			Expected: map[string]interface{}{"unscheduled": exp}, Actual: map[string]interface{}{"scheduled": act}}}
	}
	if out.Fingerprint != c.refFP {
		// find the first differing line: "<BuiltIn name>=..."
		a, b := strings.Split(c.refFP, "\n"), strings.Split(out.Fingerprint, "\n")
		for i := 0; i < len(a) && i < len(b); i++ {
			if a[i] != b[i] {
				name := strings.SplitN(a[i], "=", 2)[0]
				return mk("C08/startup/"+name, clipStr(a[i], 800), clipStr(b[i], 800))
			}
		}
		return mk("C08/startup/shape", len(a), len(b))
	}
	for i, p := range out.Probes {
		if i < len(c.refPr) && p != c.refPr[i] {
			return mk(fmt.Sprintf("C08/startup/probe%d", i), c.refPr[i], p)
		}
	}
	return nil
}

func (c *c08Check) Evidence(st Stats, tier string) (map[string]interface{}, []string) {
	s := st.(*C08Stats)
	cov := map[string]interface{}{
		"evaluations":                     s.CF.Evals + s.S2Evals + s.S3Runs,
		"distinct_nontrivial":             len(s.CF.Distinct) + len(s.S2Perms) + len(s.S3Scheds),
		"rule":                            "three stages. S1: generated program, fault-free slot trace vs the source-order model (distinct = program skeletons). S2: program (hash-sensitive template or generated) evaluated under the canonical and under tape-chosen map-iteration orders (reverse, rotation, random per occurrence) at every `range` over a Go map in the repository; distinct = distinct permutation vectors actually applied. S3: the real start-up under a seeded goroutine schedule in a fresh process; distinct = distinct schedule hashes. distinct_nontrivial is the sum of the three",
		"samples":                         s.Samples,
		"s1_programs":                     s.CF.Programs,
		"s1_distinct_program_skeletons":   len(s.CF.Distinct),
		"s1_slot_invocations":             s.CF.Slots,
		"s1_constructs":                   s.CF.Constructs,
		"s1_model_unsure_skipped":         s.CF.ModelUnsure,
		"s1_parse_rejects":                s.CF.ParseRejects,
		"s2_programs":                     s.S2Programs,
		"s2_evaluations":                  s.S2Evals,
		"s2_policies":                     s.S2Policies,
		"s2_distinct_permutation_vectors": len(s.S2Perms),
		"s2_map_ranges_permuted":          s.S2Permuted,
		"s2_map_range_sites_hit":          s.S2Sites,
		"s3_startup_schedules":            s.S3Runs,
		"s3_distinct_schedules":           len(s.S3Scheds),
		"s3_switches":                     s.S3Switches,
		"s3_runs_with_permuted_map_order": s.S3MapOrd,
		"infra_errors":                    s.Infra,
		"simulated_time":                  "none (no clock in the system)",
		"fault_kinds":                     map[string]interface{}{"map_iteration_order_permutations": s.S2Permuted, "goroutine_switches_at_startup": s.S3Switches},
		"real_vs_stub": map[string]string{
			"real": "whole interpreter built from /repo's tree; every `range` over a map and every goroutine/channel/mutex operation of the scratch copy goes through the seam",
			"stub": "callee S, stdout; iteration order of Go maps and goroutine choice are decided by the simulator; map ranges inside dependencies (echo, encoding/json) are not reachable",
		},
	}
	if len(s.Samples) == 0 {
		cov["samples"] = []interface{}{"(none)"}
	}
	return cov, []string{
		"any permutation of a Go map range is a behaviour the Go specification allows, so a result that changes under it depends on hash-table layout",
		"within one object/map pair the order of key and value is not judged; `**` items are ordered among positionals and not relative to keyword arguments",
		"argv, file contents and environment are inputs, not judged",
	}
}

func init() { register("C08", func() Check { return &c08Check{} }) }
