//go:build verifseam

package checks

import (
	"encoding/json"
	"flag"
	"fmt"
	"io"
	"os"
	"regexp"
	"sort"
	"strings"
	"sync"

	"github.com/Syuparn/pangaea/ast"
	"github.com/Syuparn/pangaea/evaluator"
	"github.com/Syuparn/pangaea/object"
	seam "github.com/Syuparn/pangaea/verifseam"

	"verifsim/harness"
	"verifsim/tape"
)

// SchedResult is what one scheduled child process reports on stdout.
type SchedResult struct {
	Mode          string            `json:"mode"` // startup | warm
	Seed          uint64            `json:"seed"`
	Run           uint64            `json:"run"`
	Tape          []uint32          `json:"tape"`
	Tasks         int               `json:"tasks"`
	Yields        uint32            `json:"yields"`
	Switches      []seam.Switch     `json:"switches"`
	SchedHash     string            `json:"sched_hash"`
	Races         []seam.RaceRec    `json:"vc_races"`
	Ops           int               `json:"symtab_ops"`
	OpsList       []seam.Op         `json:"ops,omitempty"`
	Deadlock      bool              `json:"deadlock"`
	SiteHits      map[string]uint32 `json:"site_hits"`
	AfterWrite    uint32            `json:"switch_after_table_write"`
	Panics        []string          `json:"panics"`
	Isolation     []string          `json:"isolation_mismatches"`
	Programs      []string          `json:"programs"`
	Fingerprint   string            `json:"fingerprint,omitempty"` // startup: built-in objects fingerprint
	Probes        []string          `json:"probes,omitempty"`
	RaceBuild     bool              `json:"race_build"`
	Ties          int               `json:"maporder_ties"`
	FreeformLines int               `json:"freeform_lines"`
	SweepLines    int               `json:"sweep_lines"`
	SweepWarmed   bool              `json:"sweep_symbols_interned_beforehand"`
	SharedChanged []string          `json:"shared_values_changed"`
	SwitchPerK    uint32            `json:"switch_per_k"`
	EvalPerK      uint32            `json:"eval_per_k"`
}

func schedHash(sw []seam.Switch) string {
	var h uint64 = 1469598103934665603
	for _, s := range sw {
		h ^= uint64(s.At)<<8 | uint64(s.To)
		h *= 1099511628211
	}
	return fmt.Sprintf("%016x", h)
}

// taskProgram builds the stream of small programs one task evaluates.  Every
// program interns symbols nobody used before (uniq) and converts symbols back.
func taskProgram(t *tape.Tape, uniq string, shared string, n int) []string {
	var out []string
	for j := 0; j < n; j++ {
		u := fmt.Sprintf("%s_%d", uniq, j)
		if t.Chance(1, 3) {
			// the SAME never-seen symbols in several tasks of this run: two evaluations
			// interning one new symbol at the same time, then converting it back
			u = fmt.Sprintf("%s_%d", shared, t.Intn(3))
		}
		switch t.Pick(3, 3, 2, 2, 2, 2, 1, 2) {
		case 7:
			// a source file next to the process's working directory, pulled in by a relative
			// import / invite! (several evaluations may do so at once, as handlers of one server do)
			if t.Chance(1, 2) {
				out = append(out, fmt.Sprintf("m_%s := import(\"./c20lib\"); [m_%s.libval, m_%s.keys.len]", u, u, u))
			} else {
				out = append(out, "invite!(\"./c20lib\"); libf(1)")
			}
		case 0:
			out = append(out, fmt.Sprintf("a_%s := {k_%s: 1, j_%s: 2}; a_%s.keys", u, u, u, u))
		case 1:
			out = append(out, fmt.Sprintf("\"z_%s := 3; y_%s := 4\".evalEnv", u, u))
		case 2:
			out = append(out, fmt.Sprintf("f_%s := {|p_%s, q_%s: 1| [p_%s, q_%s, \\_]}; f_%s(5, q_%s: 2)", u, u, u, u, u, u, u))
		case 3:
			out = append(out, fmt.Sprintf("JSON.dec(`{\"n_%s\": 1, \"m_%s\": [2]}`).items", u, u))
		case 4:
			out = append(out, fmt.Sprintf("o_%s := {w_%s: 7}.bear({v_%s: 8}); [o_%s.w_%s, o_%s.v_%s, o_%s.repr]", u, u, u, u, u, u, u, u))
		case 5:
			out = append(out, fmt.Sprintf("%%{'s_%s: 1, \"t_%s\": 2}.keys@S", u, u))
		default:
			out = append(out, fmt.Sprintf("[1, 2, 3]@{|e_%s| e_%s * 2}$(0){|acc_%s, x_%s| acc_%s + x_%s}", u, u, u, u, u, u))
		}
	}
	return out
}

// fingerprintBuiltins renders every built-in prototype object: sorted own keys and
// each value's Inspect (the observable result of start-up).
func fingerprintBuiltins(env *object.Env) string {
	var sb strings.Builder
	names := []string{}
	store := map[string]object.PanObject{}
	for h, o := range env.Store {
		s, ok := object.SymHash2Str(h)
		if !ok {
			continue
		}
		name := s.(*object.PanStr).Value
		names = append(names, name)
		store[name] = o
	}
	sort.Strings(names)
	for _, n := range names {
		o := store[n]
		sb.WriteString(n + "=")
		if po, ok := o.(*object.PanObj); ok && po.Pairs != nil {
			keys := []string{}
			vals := map[string]string{}
			for _, p := range *po.Pairs {
				k := p.Key.Inspect()
				keys = append(keys, k)
				vals[k] = p.Value.Inspect()
			}
			sort.Strings(keys)
			for _, k := range keys {
				sb.WriteString(k + ":" + vals[k] + ";")
			}
			if po.Proto() != nil {
				sb.WriteString("^" + po.Proto().Inspect()[:min(20, len(po.Proto().Inspect()))])
			}
		} else {
			sb.WriteString(o.Inspect())
		}
		sb.WriteString("\n")
	}
	return sb.String()
}

func min(a, b int) int {
	if a < b {
		return a
	}
	return b
}

var startupProbes = []string{
	`[1, 2, 3]@{|x| x * 2}.S`,
	`{b: 2, a: 1}.items.S`,
	`%{3: 1, 1: 2}.keys.S`,
	`"abc".uc + 3.S + (1:4).A.S`,
	`5.try./(0).err.S`,
	`[3, 1, 2].sort.S`,
	`Int.keys.len.S + Arr.keys.len.S + Str.keys.len.S + Obj.keys.len.S`,
	`<{|i| yield i if i < 3; recur(i+1)}>.new(0).A.S`,
	`1.which('bear).S + "a".which('+).S + [1].which('A).S`,
}

// schedChild runs one scheduled simulation in this (fresh) process.
var plainName = regexp.MustCompile(`^[A-Za-z_][A-Za-z0-9_]*[?!]?$`)

func schedChild(args []string) int {
	fs := flag.NewFlagSet("schedrun", flag.ExitOnError)
	mode := fs.String("mode", "warm", "")
	seed := fs.Uint64("seed", 1, "")
	run := fs.Uint64("run", 0, "")
	explicit := fs.String("explicit", "", "JSON file with a SchedResult to replay (its tape and switches)")
	withOps := fs.Bool("ops", false, "include the full symbol-table history")
	mapOrd := fs.String("maporder", "", "kind:seed - permute every map range during the run (startup mode, non-race builds)")
	fs.Parse(args)
	var t *tape.Tape
	var exp []seam.Switch
	if *explicit != "" {
		b, err := os.ReadFile(*explicit)
		if err != nil {
			fmt.Fprintln(os.Stderr, "INFRA:", err)
			return 2
		}
		var prev SchedResult
		if err := json.Unmarshal(b, &prev); err != nil {
			fmt.Fprintln(os.Stderr, "INFRA:", err)
			return 2
		}
		t = tape.Replay(prev.Tape)
		exp = prev.Switches
		if exp == nil {
			exp = []seam.Switch{}
		}
	} else {
		t = tape.New(*seed^hashID("SCHED"+*mode), *run)
	}
	res := SchedResult{Mode: *mode, Seed: *seed, Run: *run, RaceBuild: seam.RaceBuild}
	cfg := seam.Config{Seed: uint64(t.U32())<<32 | uint64(t.U32()), Explicit: exp}
	// swarm: switch rates vary per run
	cfg.SwitchPerK = []uint32{8, 64, 256, 512, 900}[t.Intn(5)]
	cfg.EvalPerK = []uint32{0, 1, 4, 32}[t.Intn(4)]
	res.SwitchPerK, res.EvalPerK = cfg.SwitchPerK, cfg.EvalPerK

	switch *mode {
	case "startup":
		if *mapOrd != "" {
			var kind string
			var sd uint64
			fmt.Sscanf(strings.Replace(*mapOrd, ":", " ", 1), "%s %d", &kind, &sd)
			pol := &mapPolicy{kind: kind, seed: sd, rot: int(sd%7) + 1}
			seam.MapOrder = pol.order
			defer func() { seam.MapOrder = nil }()
		}
		seam.Begin(cfg)
		it := harness.NewInterp() // di.InjectBuiltInProps with its 19 loaders as tasks
		seam.Join()
		seam.End()
		res.Fingerprint = fingerprintBuiltins(it.Global)
		for _, p := range startupProbes {
			prog, err := harness.Parse(p)
			if err != nil {
				res.Probes = append(res.Probes, "PARSE "+err.Error())
				continue
			}
			r := it.Run(prog, nil)
			switch {
			case r.Panic != "":
				res.Probes = append(res.Probes, "PANIC "+r.Panic)
			case r.Err != nil:
				res.Probes = append(res.Probes, "ERR "+r.Err.Inspect())
			default:
				res.Probes = append(res.Probes, r.Obj.Inspect())
			}
		}
	case "warm":
		it := harness.NewInterp()
		c06InitObserve(it)
		// the library file of the relative imports lives in the scratch directory, which
		// becomes the working directory of this child
		if dir := os.Getenv("VERIF_SCRATCH"); dir != "" {
			if os.Chdir(dir) == nil {
				// (many child processes share the directory: the file appears atomically, once)
				if _, err := os.Stat("c20lib.pangaea"); err != nil {
					tmp := fmt.Sprintf("c20lib.%d.tmp", os.Getpid())
					if os.WriteFile(tmp, []byte("libval := 41\nlibname := \"lib\"\nlibf := {|a| a + libval}\n"), 0o644) == nil {
						os.Rename(tmp, "c20lib.pangaea")
					}
				}
			}
		}
		k := 2 + t.Intn(5)
		nprog := 1 + t.Intn(4)
		progs := make([][]string, k)
		results := make([][]string, k)
		panics := make([]string, k)
		collide := t.Chance(1, 2)
		for i := range progs {
			progs[i] = taskProgram(t, fmt.Sprintf("r%d_t%d", *run, i), fmt.Sprintf("r%d_sh", *run), nprog)
			if collide {
				// collision run: every task starts by interning the same brand-new symbols
				// and converting them back (evalEnv -> Env.Items -> SymHash2Str)
				progs[i] = append([]string{fmt.Sprintf("\"c_r%d_a := 1; c_r%d_b := 2\".evalEnv", *run, *run)}, progs[i]...)
			}
			results[i] = make([]string, len(progs[i]))
			res.Programs = append(res.Programs, strings.Join(progs[i], " ;; "))
		}
		scopeBase := it.Global
		evalOne := func(src string) (out string) {
			// no harness state is shared between tasks here (a shared mutex would add
			// happens-before edges and hide races from the detector)
			defer func() {
				if r := recover(); r != nil {
					if r == seam.FuelExhausted {
						panic(r)
					}
					out = fmt.Sprint("PANIC ", r)
				}
			}()
			prog, err := harness.Parse(src)
			if err != nil {
				return "PARSE " + err.Error()
			}
			env := object.NewEnclosedEnv(scopeBase)
			o := evaluator.Eval(prog, env)
			if e, ok := o.(*object.PanErr); ok {
				return "ERR " + e.Inspect()
			}
			return o.Inspect()
		}
		// half of the tasks run a free-form history over arbitrary built-in properties
		// (the C06 generator) instead of the symbol-interning programs: any interpreter-wide
		// state touched by any built-in is then exercised from several tasks at once
		freeform := make([]bool, k)
		taskViols := make([][]string, k)
		taskLines := make([][]c06Line, k)
		soloEval := func(prog ast.Node, c *harness.Callee, env *object.Env) (res harness.Result) {
			c.Bind(env)
			defer func() {
				if r := recover(); r != nil {
					if r == seam.FuelExhausted {
						res.Panic = "fuel exhausted"
						return
					}
					res.Panic = fmt.Sprint(r)
				}
			}()
			o := evaluator.Eval(prog, env)
			res.Obj = o
			res.Scope = env
			if e, ok := o.(*object.PanErr); ok {
				res.Err = e
			}
			return
		}
		// C06 face 3: in some runs the free-form tasks share one pool of values created
		// beforehand in a common outer scope; nothing any task does may write to them
		var sharedEnv *object.Env
		var sharedNames []string
		var sharedBefore []string
		builtinsFP := map[object.PanObject]string{}
		wantSweep := t.Chance(1, 3)
		if wantSweep || t.Chance(1, 2) {
			sharedEnv = object.NewEnclosedEnv(it.Global)
			for i := 0; i < 6; i++ {
				src := c06Seeds[t.Intn(len(c06Seeds))]
				prog, err := harness.Parse(src)
				if err != nil {
					continue
				}
				o := evaluator.Eval(prog, object.NewEnclosedEnv(it.Global))
				if _, isErr := o.(*object.PanErr); isErr || !poolable(o) || typeTag(o) == "iter" {
					continue
				}
				name := fmt.Sprintf("sh%d", i)
				sharedEnv.Set(object.GetSymHash(name), o)
				sharedNames = append(sharedNames, name)
				sharedBefore = append(sharedBefore, c06Fingerprint(o, builtinsFP, 0))
				res.Programs = append(res.Programs, name+" := "+src)
			}
		}
		// sweep runs: every task reads the shared values through EVERY property their prototype
		// chains offer (plainly and with `private?: true`), all tasks the same list in a
		// tape-chosen rotation: a property that looks read-only but writes to the value (or
		// to any interpreter-wide table) then meets itself in another task
		sweep := wantSweep && len(sharedNames) > 0
		if sweep {
			tabs := &c06Check{it: it}
			tabs.initTables(it)
			var lines []string
			recvs := append([]string(nil), sharedNames...)
			// the built-in prototypes (shared by every evaluation of the process) are receivers too
			protos := []string{"Int", "Str", "Arr", "Obj", "Map", "Range", "Func", "Kernel", "Iterable", "Either", "Err", "BaseObj", "Float", "Nil", "Comparable", "Iter"}
			for _, j := range t.Perm(len(protos))[:4] {
				recvs = append(recvs, protos[j])
			}
			for _, name := range recvs {
				v, ok := sharedEnv.Get(object.GetSymHash(name))
				if !ok {
					continue
				}
				// the value as the FIRST of two `**` expansions of a call and of two literals (what
				// is merged must never be merged into the value itself); errors are absorbed
				lines = append(lines,
					fmt.Sprintf("[1]~@{|x| {|| \\_.keys.len}(**%s, **{zq_%s: 1})}", name, name),
					fmt.Sprintf("[1]~@{|x| {**%s, **{zr_%s: 1}}.keys.len}", name, name),
					fmt.Sprintf("[1]~@{|x| %%{**%s, **{zs_%s: 1}}.len}", name, name))
				for _, pn := range tabs.propsFor(v) {
					if !plainName.MatchString(pn) {
						continue
					}
					if f := os.Getenv("VERIF_SWEEP_FILTER"); f != "" && !regexp.MustCompile(f).MatchString(pn) {
						continue // development aid: sweep only the properties whose name matches f
					}
					// one element, thoughtful list chain: a failing read leaves the element and the
					// sweep goes on; the property is called exactly as by `recv.name(...)`
					lines = append(lines, fmt.Sprintf("[%s]~@%s", name, pn), fmt.Sprintf("[%s]~@%s(private?: true)", name, pn))
				}
			}
			scopeBase = sharedEnv
			// (the race detector orders accesses by happens-before, not by the interleaving that
			// happened to occur, so a sweep does not need fine-grained switching: few switches
			// keep the whole list affordable and the recorded schedule short. Each task's sweep
			// is ONE program - an array literal of all reads - so that it is parsed once.)
			lockstep := t.Chance(5, 6)
			if lockstep {
				// same rotation, a switch at most entries of Eval: the tasks advance through the
				// list side by side, so that the two calls of one property are close together
				// (little of what the detector treats as synchronisation - sync.Pool traffic of
				// fmt, for one - fits between them)
				cfg.EvalPerK, cfg.SwitchPerK = 160, 32
			} else {
				cfg.EvalPerK = 0
				if cfg.SwitchPerK > 8 {
					cfg.SwitchPerK = 8
				}
			}
			res.SwitchPerK, res.EvalPerK = cfg.SwitchPerK, cfg.EvalPerK
			if len(lines) > 1200 {
				w := t.Intn(len(lines) - 1200)
				lines = lines[w : w+1200]
			}
			// In two runs of three the sweep is first evaluated once, alone: afterwards every
			// symbol it needs is interned, so the tasks never take the symbol table's write
			// lock - whose release/acquire pairs would otherwise order most of what two tasks
			// do in a token-passing execution and so hide conflicting accesses from the detector.
			// (The remaining runs keep the cold start: first-use initialisation races.)
			if t.Chance(2, 3) {
				evalOne("[\n" + strings.Join(lines, ",\n") + "\n]")
				res.SweepWarmed = true
			}
			for i := range progs {
				if i >= 2 {
					// two sweeping tasks are enough to meet each other; the others idle
					progs[i] = []string{"nil"}
					results[i] = make([]string, 1)
					res.Programs[i] = "nil"
					continue
				}
				rot := t.Intn(len(lines))
				if lockstep {
					rot = 0
				}
				rotated := append(append([]string(nil), lines[rot:]...), lines[:rot]...)
				progs[i] = []string{"[\n" + strings.Join(rotated, ",\n") + "\n]"}
				results[i] = make([]string, 1)
				res.Programs[i] = fmt.Sprintf("<sweep of %d property reads over the shared values and the built-in prototypes, rotation %d>", len(lines), rot)
			}
			res.SweepLines += len(lines) * 2
		}
		histGen := make([]*c06Check, k)
		histTape := make([]*tape.Tape, k)
		for i := 0; i < k; i++ {
			if !sweep && t.Chance(1, 2) {
				freeform[i] = true
				histGen[i] = &c06Check{it: it, evalHook: soloEval, sharedEnv: sharedEnv, sharedNames: sharedNames}
				histTape[i] = tape.New(uint64(t.U32())<<20|uint64(*run), uint64(i))
				res.Programs[i] = "<free-form history over built-in properties>"
			}
		}
		for i := 0; i < k; i++ {
			if histGen[i] != nil {
				histGen[i].initTables(it)
			}
		}
		// the shared IO object must not synchronise tasks behind the program's back
		it.Global.InjectIO(strings.NewReader(""), io.Discard)
		var wg sync.WaitGroup
		cfg.Fuel = 6000000
		seam.Begin(cfg)
		for i := 0; i < k; i++ {
			i := i
			wg.Add(1)
			seam.Go("worker.task", func() {
				defer wg.Done()
				defer func() {
					if r := recover(); r != nil {
						panics[i] = fmt.Sprint(r)
					}
				}()
				if freeform[i] {
					for _, v := range histGen[i].runHist(*seed, *run, histTape[i], newC06Stats(), &taskLines[i]) {
						taskViols[i] = append(taskViols[i], fmt.Sprintf("task %d: %s: %v -> %v", i, v.Signature, v.Expected, v.Actual))
					}
					return
				}
				for j, src := range progs[i] {
					results[i][j] = evalOne(src)
				}
			})
		}
		seam.Join()
		wg.Wait()
		seam.End()
		for i, p := range panics {
			if p != "" {
				res.Panics = append(res.Panics, fmt.Sprintf("task %d: %s", i, p))
			}
		}
		for i, name := range sharedNames {
			v, _ := sharedEnv.Get(object.GetSymHash(name))
			if now := c06Fingerprint(v, builtinsFP, 0); now != sharedBefore[i] {
				res.SharedChanged = append(res.SharedChanged, fmt.Sprintf("%s: before=%s after=%s", name, clipStr(sharedBefore[i], 300), clipStr(now, 300)))
			}
		}
		for i := range taskViols {
			res.SharedChanged = append(res.SharedChanged, taskViols[i]...)
		}
		// isolation: each task's results equal its results when run alone
		for i := range progs {
			if freeform[i] {
				// replay the recorded lines alone, in a fresh scope: same results
				env := object.NewEnclosedEnv(it.Global)
				if sharedEnv != nil {
					env = object.NewEnclosedEnv(sharedEnv)
				}
				for _, l := range taskLines[i] {
					prog, err := harness.Parse(l.Src)
					if err != nil {
						continue
					}
					r := soloEval(prog, &harness.Callee{Plan: l.Plan, Limit: 5000}, env)
					if got := describeResult(r); got != l.Result {
						if strings.HasPrefix(l.Result, "PANIC") && !strings.Contains(l.Result, "fuel") {
							res.Panics = append(res.Panics, fmt.Sprintf("task %d line %q: %s", i, l.Src, l.Result))
						}
						res.Isolation = append(res.Isolation, fmt.Sprintf("task %d line %q: concurrent=%s alone=%s", i, l.Src, l.Result, got))
						break
					}
				}
				res.FreeformLines += len(taskLines[i])
				continue
			}
			for j, src := range progs[i] {
				if strings.HasPrefix(results[i][j], "PANIC") {
					res.Panics = append(res.Panics, fmt.Sprintf("task %d program %d: %s", i, j, results[i][j]))
				}
				if sweep && i > 0 {
					continue // the sweeps differ only in rotation: one is compared with its solo run
				}
				solo := evalOne(src)
				if solo != results[i][j] {
					res.Isolation = append(res.Isolation, fmt.Sprintf("task %d program %q: concurrent=%s alone=%s", i, src, results[i][j], solo))
				}
			}
		}
	case "http":
		// request handlers of one server running concurrently with each other and with a
		// main-script task; requests carry brand-new JSON keys, header names and query names
		it := harness.NewInterp()
		h, err := newHTTPHandler(it)
		if err != nil {
			fmt.Fprintln(os.Stderr, "INFRA:", err)
			return 2
		}
		it.Global.InjectIO(strings.NewReader(""), io.Discard)
		k := 2 + t.Intn(4)
		nreq := 1 + t.Intn(4)
		reqs := make([][]httpReq, k)
		got := make([][]string, k)
		for i := 0; i < k; i++ {
			for j := 0; j < nreq; j++ {
				u := fmt.Sprintf("r%d_t%d_%d", *run, i, j)
				if t.Chance(1, 3) {
					u = fmt.Sprintf("r%d_shared_%d", *run, t.Intn(2)) // the same new names in several tasks
				}
				var rq httpReq
				switch t.Pick(3, 3, 2, 1) {
				case 0:
					rq = httpReq{Method: "POST", Target: "/hdr", Body: fmt.Sprintf(`{"x-a-%s": "v", "x-b-%s": "w"}`, u, u)}
				case 1:
					rq = httpReq{Method: "GET", Target: fmt.Sprintf("/users/%s?q%s=1&p%s=2", u, u, u)}
				case 2:
					rq = httpReq{Method: "GET", Target: "/env"}
				default:
					rq = httpReq{Method: "GET", Target: "/hello?name=" + u}
				}
				reqs[i] = append(reqs[i], rq)
				res.Programs = append(res.Programs, rq.Method+" "+rq.Target+" "+rq.Body)
			}
			got[i] = make([]string, len(reqs[i]))
		}
		mainProgs := taskProgram(t, fmt.Sprintf("r%d_main", *run), fmt.Sprintf("r%d_shared", *run), 1+t.Intn(3))
		mainRes := make([]string, len(mainProgs))
		evalOne := func(src string) (out string) {
			defer func() {
				if r := recover(); r != nil {
					out = fmt.Sprint("PANIC ", r)
				}
			}()
			prog, err := harness.Parse(src)
			if err != nil {
				return "PARSE " + err.Error()
			}
			o := evaluator.Eval(prog, object.NewEnclosedEnv(it.Global))
			if e, ok := o.(*object.PanErr); ok {
				return "ERR " + e.Inspect()
			}
			return o.Inspect()
		}
		var wg sync.WaitGroup
		seam.Begin(cfg)
		for i := 0; i < k; i++ {
			i := i
			wg.Add(1)
			seam.Go("worker.httptask", func() {
				defer wg.Done()
				for j, rq := range reqs[i] {
					got[i][j] = serveOnce(h, rq)
				}
			})
		}
		wg.Add(1)
		seam.Go("worker.mainscript", func() {
			defer wg.Done()
			for j, src := range mainProgs {
				mainRes[j] = evalOne(src)
			}
		})
		seam.Join()
		wg.Wait()
		seam.End()
		for i := range reqs {
			for j, rq := range reqs[i] {
				if strings.HasPrefix(got[i][j], "HOST PANIC") {
					res.Panics = append(res.Panics, fmt.Sprintf("request %s %s: %s", rq.Method, rq.Target, got[i][j]))
				}
				if solo := serveOnce(h, rq); solo != got[i][j] {
					res.Isolation = append(res.Isolation, fmt.Sprintf("request %s %s %s: concurrent=%s alone=%s", rq.Method, rq.Target, rq.Body, got[i][j], solo))
				}
			}
		}
		for j, src := range mainProgs {
			if strings.HasPrefix(mainRes[j], "PANIC") {
				res.Panics = append(res.Panics, "main script: "+mainRes[j])
			}
			if solo := evalOne(src); solo != mainRes[j] {
				res.Isolation = append(res.Isolation, fmt.Sprintf("main script %q: concurrent=%s alone=%s", src, mainRes[j], solo))
			}
		}
	default:
		fmt.Fprintln(os.Stderr, "INFRA: unknown mode")
		return 2
	}
	rep := seam.Collect()
	res.Tape = t.Rec
	res.Tasks = rep.Tasks
	res.Yields = rep.Yields
	res.Switches = rep.Switches
	res.SchedHash = schedHash(rep.Switches)
	res.Races = rep.Races
	res.Ops = len(rep.Ops)
	if *withOps {
		res.OpsList = rep.Ops
	}
	res.Deadlock = rep.Deadlock
	res.SiteHits = rep.SiteHits
	res.AfterWrite = rep.AfterWrite
	res.Ties = seam.Ties
	b, _ := json.Marshal(res)
	os.Stdout.Write(append(b, '\n'))
	return 0
}
