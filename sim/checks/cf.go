package checks

import (
	"fmt"
	"os"
	"sort"
	"strings"

	"github.com/Syuparn/pangaea/object"

	"verifsim/gen"
	"verifsim/harness"
	"verifsim/tape"
)

// CFConfig configures the control-flow engine (CALLEE fault enumeration against
// the reference model) for one property.
type CFConfig struct {
	Prop            string
	JudgeClean      bool // judge the fault-free run against the model (order / exactly-once / defers)
	Faults          bool // enumerate a raise at every dynamic slot position
	KindsPerPos     int  // error kinds tried per position (chosen by tape); 0 = all
	Profile         func(t *tape.Tape) gen.Profile
	JudgeCleanRaise bool // judge the fault-free run when the model says it ends in an error of the program's own
	Relayout        bool // sometimes spread argument lists over lines and use CRLF / lone-CR line ends
}

// Viol is one observed violation.
type Viol struct {
	Prop      string                 `json:"property"`
	Signature string                 `json:"signature"`
	Run       uint64                 `json:"run"`
	Seed      uint64                 `json:"seed"`
	Tape      []uint32               `json:"tape"`
	Derived   map[string]interface{} `json:"derived"`
	Expected  map[string]interface{} `json:"expected"`
	Actual    map[string]interface{} `json:"actual"`
	Engine    string                 `json:"engine"`
	Tier      string                 `json:"tier,omitempty"`
}

// CFStats are the per-run counters that go to evidence.
type CFStats struct {
	Programs     int             `json:"programs"`
	Relayouts    int             `json:"programs_in_a_spread_layout_with_lf_crlf_or_cr"`
	ParseRejects int             `json:"parse_rejects"`
	ModelUnsure  int             `json:"model_unsure"`
	CleanSkipped int             `json:"clean_divergence_skipped"`
	Evals        int             `json:"evaluations"`
	FaultsFired  map[string]int  `json:"faults_fired"` // by error kind
	FaultRoles   map[string]int  `json:"fault_roles"`  // by slot role
	Absorbed     int             `json:"faults_absorbed_by_handler"`
	InDefer      int             `json:"faults_inside_deferred_expr"`
	DefersRun    int             `json:"deferred_exprs_after_fault"`
	Slots        int             `json:"slot_invocations"`
	Distinct     map[string]bool `json:"-"`
	Constructs   map[string]int  `json:"constructs"`
	Sample       []interface{}   `json:"-"`
}

func newCFStats() *CFStats {
	return &CFStats{FaultsFired: map[string]int{}, FaultRoles: map[string]int{}, Distinct: map[string]bool{}, Constructs: map[string]int{}}
}

func (s *CFStats) merge(o *CFStats) {
	s.Programs += o.Programs
	s.Relayouts += o.Relayouts
	s.ParseRejects += o.ParseRejects
	s.ModelUnsure += o.ModelUnsure
	s.CleanSkipped += o.CleanSkipped
	s.Evals += o.Evals
	s.Absorbed += o.Absorbed
	s.InDefer += o.InDefer
	s.DefersRun += o.DefersRun
	s.Slots += o.Slots
	for k, v := range o.FaultsFired {
		s.FaultsFired[k] += v
	}
	for k, v := range o.FaultRoles {
		s.FaultRoles[k] += v
	}
	for k, v := range o.Constructs {
		s.Constructs[k] += v
	}
	for k := range o.Distinct {
		s.Distinct[k] = true
	}
	if len(s.Sample) < 3 {
		s.Sample = append(s.Sample, o.Sample...)
	}
}

// StopIterErr is included: a callee raising it is an error like any other for the
// constructs generated here; only the iterator protocol itself consumes it, so it is
// not injected at slots that sit inside an iterator literal's body (see CFRun).
var cfKinds = []string{"Err", "TypeErr", "ValueErr", "ZeroDivisionErr", "NameErr", "NoPropErr", "AssertionErr", "NotImplementedErr", "SyntaxErr", "FileNotFoundErr", "StopIterErr"}

func defaultsOf(p *gen.Program) map[int]harness.Ret {
	d := map[int]harness.Ret{}
	for id, s := range p.Slots {
		k := s.Ret
		if k == "" {
			k = "id"
		}
		d[id] = harness.Ret{Kind: k}
	}
	return d
}

func idsString(ids []int) string {
	parts := make([]string, len(ids))
	for i, v := range ids {
		parts[i] = fmt.Sprint(v)
	}
	return strings.Join(parts, " ")
}

func sameInts(a, b []int) bool {
	if len(a) != len(b) {
		return false
	}
	for i := range a {
		if a[i] != b[i] {
			return false
		}
	}
	return true
}

func firstDiff(a, b []int) int {
	n := len(a)
	if len(b) < n {
		n = len(b)
	}
	for i := 0; i < n; i++ {
		if a[i] != b[i] {
			return i
		}
	}
	return n
}

func roleOf(p *gen.Program, id int) string {
	if s, ok := p.Slots[id]; ok {
		return s.Role
	}
	return "?"
}

// scanFor looks for an error object carrying msg reachable from the scope's own variables.
func scanFor(env *object.Env, msg string) string {
	seen := map[interface{}]bool{}
	var visit func(o object.PanObject, path string, depth int) string
	visit = func(o object.PanObject, path string, depth int) string {
		if o == nil || depth > 12 {
			return ""
		}
		switch v := o.(type) {
		case *object.PanErr:
			if v.Msg == msg {
				return path
			}
		case *object.PanErrWrapper:
			if v.Msg == msg {
				return path + "(wrapped)"
			}
		case *object.PanArr:
			if seen[v] {
				return ""
			}
			seen[v] = true
			for i, e := range v.Elems {
				if r := visit(e, fmt.Sprintf("%s[%d]", path, i), depth+1); r != "" {
					return r
				}
			}
		case *object.PanObj:
			if seen[v] {
				return ""
			}
			seen[v] = true
			if v.Pairs != nil {
				keys := make([]uint64, 0, len(*v.Pairs))
				for k := range *v.Pairs {
					keys = append(keys, k)
				}
				sort.Slice(keys, func(i, j int) bool { return keys[i] < keys[j] })
				for _, k := range keys {
					pr := (*v.Pairs)[k]
					if r := visit(pr.Value, path+"."+pr.Key.Inspect(), depth+1); r != "" {
						return r
					}
				}
			}
		case *object.PanMap:
			if seen[v] {
				return ""
			}
			seen[v] = true
			if v.Pairs != nil {
				for _, pr := range *v.Pairs {
					if r := visit(pr.Key, path+"{key}", depth+1); r != "" {
						return r
					}
					if r := visit(pr.Value, path+"{val}", depth+1); r != "" {
						return r
					}
				}
			}
			if v.NonHashablePairs != nil {
				for _, pr := range *v.NonHashablePairs {
					if r := visit(pr.Key, path+"{key}", depth+1); r != "" {
						return r
					}
					if r := visit(pr.Value, path+"{val}", depth+1); r != "" {
						return r
					}
				}
			}
		case *object.PanRange:
			for i, b := range []object.PanObject{v.Start, v.Stop, v.Step} {
				if r := visit(b, fmt.Sprintf("%s(bound %d)", path, i), depth+1); r != "" {
					return r
				}
			}
		case *object.PanFunc:
			if seen[v] {
				return ""
			}
			seen[v] = true
			if v.Env != nil {
				for _, val := range v.Env.Store {
					if r := visit(val, path+"<closure>", depth+1); r != "" {
						return r
					}
				}
			}
		}
		return ""
	}
	keys := make([]uint64, 0, len(env.Store))
	for k := range env.Store {
		keys = append(keys, k)
	}
	sort.Slice(keys, func(i, j int) bool { return keys[i] < keys[j] })
	for _, k := range keys {
		name := "?"
		if s, ok := object.SymHash2Str(k); ok {
			name = s.Inspect()
		}
		if r := visit(env.Store[k], name, 0); r != "" {
			return r
		}
	}
	return ""
}

type cfJudgement struct {
	what     string // "", "trace", "outcome", "value", "stored", "panic"
	expected map[string]interface{}
	actual   map[string]interface{}
	diffID   int
	diffPos  int // index of the first diverging invocation in the expected trace (-1: none)
}

// judge compares one real run with the model's prediction.
func judge(p *gen.Program, exp gen.Outcome, r harness.Result, injMsg string) cfJudgement {
	act := harness.TraceIDs(r.Trace)
	j := cfJudgement{
		diffPos:  -1,
		expected: map[string]interface{}{"trace": idsString(exp.Trace)},
		actual:   map[string]interface{}{"trace": idsString(act), "stdout": r.Stdout},
	}
	if exp.Raised != nil {
		j.expected["outcome"] = fmt.Sprintf("Raise(%s: %s)", exp.Raised.Kind, exp.Raised.Msg)
	} else if exp.Val.Known() {
		j.expected["outcome"] = "Value " + exp.Val.Inspect()
	} else {
		j.expected["outcome"] = "Value <unspecified>"
	}
	switch {
	case r.Panic != "":
		j.actual["outcome"] = "HOST PANIC " + r.Panic
	case r.Err != nil:
		j.actual["outcome"] = fmt.Sprintf("Raise(%s: %s)", r.Err.Kind(), r.Err.Msg)
	case r.Obj != nil:
		j.actual["outcome"] = "Value " + r.Obj.Inspect()
	}
	if r.Panic != "" {
		j.what = "panic"
		if d := firstDiff(exp.Trace, act); d < len(exp.Trace) {
			j.diffID = exp.Trace[d]
		} else if len(act) > 0 {
			j.diffID = act[len(act)-1]
		}
		return j
	}
	if !sameInts(exp.Trace, act) {
		j.what = "trace"
		d := firstDiff(exp.Trace, act)
		if d < len(exp.Trace) {
			j.diffID = exp.Trace[d]
			j.diffPos = d
		} else if d < len(act) {
			j.diffID = act[d]
		}
		return j
	}
	if exp.Raised != nil {
		if r.Err == nil || r.Err.Kind() != exp.Raised.Kind || r.Err.Msg != exp.Raised.Msg {
			j.what = "outcome"
			return j
		}
	} else {
		if r.Err != nil {
			j.what = "outcome"
			return j
		}
		if exp.Val.Known() && r.Obj != nil && r.Obj.Inspect() != exp.Val.Inspect() {
			j.what = "value"
			return j
		}
	}
	if injMsg != "" && r.Scope != nil && !exp.CaughtAsData {
		// an injected error that was raised must never survive as data
		if where := scanFor(r.Scope, injMsg); where != "" {
			j.what = "stored"
			j.actual["stored_at"] = where
			return j
		}
		if r.Err == nil && r.Obj != nil {
			if strings.Contains(r.Obj.Inspect(), injMsg) {
				j.what = "stored"
				j.actual["stored_at"] = "final value"
				return j
			}
		}
	}
	return j
}

// CFRun executes one run (one program, all of its fault plans).  onlyPlan >= 0
// restricts to one fault position/kind (replay).
func CFRun(it *harness.Interp, cfg CFConfig, t *tape.Tape, seed, run uint64, st *CFStats, replayK int, replayKind string) []Viol {
	prof := cfg.Profile(t)
	prog := gen.Generate(t, prof)
	src := prog.Source()
	if cfg.Relayout && !strings.Contains(src, "#{") && t.Chance(1, 6) {
		// the same program in another layout: a line break after the commas of its lists (the
		// grammar allows one there), and one of the three line terminators. What is evaluated,
		// and in which order, must not follow the positions the lexer records.
		src = strings.ReplaceAll(src, ", ", ",\n"+[]string{"", " ", "      "}[t.Intn(3)])
		switch t.Intn(3) {
		case 1:
			src = strings.ReplaceAll(src, "\n", "\r\n")
		case 2:
			src = strings.ReplaceAll(src, "\n", "\r")
		}
		st.Relayouts++
	}
	st.Programs++
	ast, err := harness.Parse(src)
	if err != nil {
		st.ParseRejects++
		if os.Getenv("VERIF_DUMP_REJECTS") != "" {
			fmt.Fprintf(os.Stderr, "PARSE-REJECT %v\n%s\n----\n", err, src)
		}
		if st.ParseRejects <= 3 {
			st.Sample = append(st.Sample, map[string]interface{}{"parse_reject": src, "err": err.Error()})
		}
		return nil
	}
	gen.Walk(&gen.N{L: prog.Stmts}, func(n *gen.N) {
		switch n.K {
		case gen.KSlot, gen.KInt, gen.KVar, gen.KExprS, gen.KAssign, gen.KBool, gen.KNil:
		case gen.KPropC, gen.KLitC, gen.KVarC:
			st.Constructs[n.K+n.Chain.String()]++
		default:
			st.Constructs[n.K]++
		}
	})
	defaults := defaultsOf(prog)
	var viols []Viol
	mk := func(phase string, j cfJudgement, k int, kind string) Viol {
		role := roleOf(prog, j.diffID)
		v := Viol{Prop: cfg.Prop, Run: run, Seed: seed, Tape: append([]uint32(nil), t.Rec...), Engine: "callee",
			Derived: map[string]interface{}{"program": src}, Expected: j.expected, Actual: j.actual}
		if phase == "fault" {
			v.Derived["plan"] = map[string]interface{}{"at": k, "raise": kind}
		}
		v.Signature = fmt.Sprintf("%s/%s/%s/%s", cfg.Prop, phase, role, j.what)
		return v
	}

	// fault-free run
	exp0 := gen.Run(prog, nil)
	c := &harness.Callee{Defaults: defaults}
	r0 := it.Run(ast, c)
	st.Evals++
	st.Slots += len(r0.Trace)
	if exp0.Unsure != "" {
		st.ModelUnsure++
		return nil
	}
	st.Distinct[fmt.Sprintf("%s|%d", skeleton(prog), len(r0.Trace))] = true
	if len(st.Sample) < 2 {
		st.Sample = append(st.Sample, map[string]interface{}{"program": src, "fault_free_trace": idsString(harness.TraceIDs(r0.Trace)), "fault_positions": len(exp0.Trace)})
	}
	j0 := judge(prog, exp0, r0, "")
	if j0.what != "" {
		// the fault-free run is C08's and C15's business - unless the program fails by itself (an
		// unbound name, `_`, a division by zero ...): then how that error travels is fail-stop, too
		if cfg.JudgeClean || (cfg.JudgeCleanRaise && exp0.Raised != nil) {
			v := mk("clean", j0, -1, "")
			where := pathOf(exp0, j0.diffID, j0.diffPos, roleOf(prog, j0.diffID))
			if j0.what == "outcome" && j0.diffPos < 0 && exp0.Raised != nil && exp0.RaisePath != "" {
				where = exp0.RaisePath // same invocations, other ending: name the place the expected error comes from
			}
			v.Signature = fmt.Sprintf("%s/clean/%s/%s", cfg.Prop, where, j0.what)
			if hasVarCallArgs(prog) {
				// does the run show exactly the recorded finding "the argument list of a variable
				// call is never evaluated" and nothing else? then it is named after it
				if alt := gen.RunWith(prog, nil, gen.Deviations{VarCallArgsIgnored: true}); alt.Unsure == "" && judge(prog, alt, r0, "").what == "" {
					v.Signature = fmt.Sprintf("%s/clean/known-deviation>varcall/arg/%s", cfg.Prop, j0.what)
				}
			}
			viols = append(viols, v)
		} else {
			st.CleanSkipped++
		}
		return viols
	}
	if !cfg.Faults {
		return viols
	}
	// fault enumeration: every dynamic position of the fault-free trace
	seenSig := map[string]bool{}
	for k := range exp0.Trace {
		if exp0.NoFault[k] {
			continue
		}
		kinds := cfKinds
		if replayK >= 0 {
			if k != replayK {
				continue
			}
			kinds = []string{replayKind}
		} else if cfg.KindsPerPos > 0 && cfg.KindsPerPos < len(cfKinds) {
			// deterministic, tape-independent choice so that shrinking does not shift it
			kinds = nil
			for i := 0; i < cfg.KindsPerPos; i++ {
				kinds = append(kinds, cfKinds[(k*7+i*3+int(run))%len(cfKinds)])
			}
		}
		for _, kind := range kinds {
			if kind == "StopIterErr" && strings.Contains(exp0.Paths[k], "iter/body") {
				// inside an iterator's body StopIterErr is the protocol's end-of-iteration
				// signal, consumed by chains by design: not an error to deliver
				continue
			}
			msg := fmt.Sprintf("inj%d", k)
			plan := map[int]gen.PlanEntry{k: {Raise: true, Kind: kind, Msg: msg}}
			exp := gen.Run(prog, plan)
			if exp.Unsure != "" {
				st.ModelUnsure++
				continue
			}
			c := &harness.Callee{Defaults: defaults, Plan: map[int]harness.Ret{k: {Kind: "raise", S: kind, Msg: msg}}}
			r := it.Run(ast, c)
			st.Evals++
			st.FaultsFired[kind]++
			role := roleOf(prog, exp0.Trace[k])
			st.FaultRoles[role]++
			if exp.Raised == nil || exp.Raised.Msg != msg {
				st.Absorbed++
			}
			if strings.HasPrefix(role, "defer/") {
				st.InDefer++
			}
			if len(exp.Trace) > k+1 && exp.Raised != nil && exp.Raised.Msg == msg {
				st.DefersRun += len(exp.Trace) - k - 1
			}
			j := judge(prog, exp, r, msg)
			if j.what != "" {
				v := mk("fault", j, k, kind)
				v.Signature = fmt.Sprintf("%s/fault/%s/%s", cfg.Prop, exp0.Paths[k], j.what)
				if !seenSig[v.Signature] {
					seenSig[v.Signature] = true
					viols = append(viols, v)
				}
			}
		}
	}
	return viols
}

// skeleton is the program with slot ids and literals erased: the measure of distinct program shapes.
func skeleton(p *gen.Program) string {
	var sb strings.Builder
	gen.Walk(&gen.N{L: p.Stmts}, func(n *gen.N) {
		sb.WriteString(n.K)
		if n.K == gen.KPropC || n.K == gen.KLitC || n.K == gen.KVarC {
			sb.WriteString(n.Chain.String())
		}
		if n.Guard != nil {
			sb.WriteString("?")
		}
		sb.WriteString(",")
	})
	return sb.String()
}

// pathOf returns the dynamic role path of the first invocation of slot id in the
// model's trace (fallback: the static role).
func hasVarCallArgs(p *gen.Program) bool {
	found := false
	gen.Walk(&gen.N{L: p.Stmts}, func(n *gen.N) {
		if n.K == gen.KVarC && (len(n.L) > 0 || len(n.Kw) > 0) {
			found = true
		}
	})
	return found
}

func pathOf(o gen.Outcome, id int, pos int, fallback string) string {
	if pos >= 0 && pos < len(o.Paths) {
		return o.Paths[pos] // the dynamic path of the very invocation that is missing or different
	}
	for i, x := range o.Trace {
		if x == id {
			return o.Paths[i]
		}
	}
	return fallback
}
