//go:build !verifseam

package checks

import (
	"fmt"
	"os"
)

func schedChild(args []string) int {
	fmt.Fprintln(os.Stderr, "INFRA: this worker was built without the seam (verifseam tag)")
	return 2
}
