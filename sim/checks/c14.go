package checks

import (
	"encoding/json"
	"fmt"
	"sort"
	"strings"

	"github.com/Syuparn/pangaea/object"

	"verifsim/harness"
	"verifsim/tape"
)

// C14: iterator literals follow next/yield/recur and are independent.
// Logical clients each hold a handle in one shared session scope; the tape picks
// who acts next and how; every action is a separately parsed and evaluated line
// (the REPL's execution model).  A per-handle state machine is the oracle.

type iterFam struct {
	kind            string
	lim             int64
	step            int64
	slot            int
	kw              bool
	guard           bool
	recur           bool
	recurBeforeSlot bool
	body            []bodyStmt // kind "gen"
	hasK            bool       // kind "gen": the body declares |i, k: 7|
	hasJ            bool       // kind "gen": the body declares a second positional parameter j
}

func (f iterFam) source() string {
	s, l, d := f.slot, f.lim, f.step
	switch f.kind {
	case "gen":
		return genSource(f.body, f.hasK, f.hasJ)
	case "guard":
		return fmt.Sprintf("<{|i| S(%d); yield i if i < %d; recur(i + %d)}>", s, l, d)
	case "noguard":
		return fmt.Sprintf("<{|i| S(%d); yield i; recur(i + %d)}>", s, d)
	case "recurfirst":
		return fmt.Sprintf("<{|i| S(%d); recur(i + %d); yield i if i < %d}>", s, d, l)
	case "twoyields":
		return fmt.Sprintf("<{|i| S(%d); yield i * 10 if i < %d; yield 777; recur(i + %d)}>", s, l, d)
	case "norecur":
		return fmt.Sprintf("<{|i| S(%d); yield i if i < %d}>", s, l)
	case "kw":
		return fmt.Sprintf("<{|i, step: %d| S(%d); yield i if i < %d; recur(i + step, step: step)}>", d, s, l)
	case "slotafterrecur":
		return fmt.Sprintf("<{|i| recur(i + %d); S(%d); yield i if i < %d}>", d, s, l)
	case "implicit":
		// no declared parameters: progress is carried by the implicit argument `\`
		return fmt.Sprintf("<{S(%d); yield \\ if \\ < %d; recur(\\ + %d)}>", s, l, d)
	case "implicit2":
		return fmt.Sprintf("<{S(%d); yield \\1 * 10 if \\1 < %d; recur(\\1 + %d)}>", s, l, d)
	case "falsyyield":
		// the first yielded value is falsy (0): it must still win over the later yield
		return fmt.Sprintf("<{|i| S(%d); yield (i - i) if i < %d; yield 777; recur(i + %d)}>", s, l, d)
	case "nilyield":
		// the first yielded value is nil: it is still the value of this `next`
		return fmt.Sprintf("<{|i| S(%d); yield (i if false) if i < %d; yield 777; recur(i + %d)}>", s, l, d)
	case "kwonly":
		// no positional parameter at all; a bare `recur()` is still the most recent recur: the
		// keyword goes back to its default
		return fmt.Sprintf("<{|k: %d| S(%d); yield k if k < %d; recur()}>", d, s, l)
	case "localstate":
		// progress kept in a body-local variable (seeded from the session's `seen0`), no recur:
		// judged only by comparing fresh iterators with each other (what persists between two
		// `next` calls without recur is not stated, that `new` starts afresh is)
		return fmt.Sprintf("<{|limit| S(%d); seen0 := seen0 + %d; yield seen0 if seen0 <= limit + %d}>", s, d, l)
	case "argvars":
		// arguments reached only through `\\1`, `\\2`: a `new` that passes fewer of them leaves the
		// rest unbound; judged only by comparing fresh iterators with each other
		return fmt.Sprintf("<{S(%d); yield [\\1, \\2] if \\1 < %d; recur(\\1 + %d, \\2)}>", s, l, d)
	case "twoparam":
		// second parameter: nil unless given to new; carried along by recur
		return fmt.Sprintf("<{|i, j| S(%d); yield [i, j] if i < %d; recur(i + %d, j)}>", s, l, d)
	}
	panic("unknown family")
}

// bodyStmt is one statement of a generated iterator body (family "gen"): the tape draws
// the statement list, genNext is its reference semantics.
type bodyStmt struct {
	kind      string // "slot", "yield", "recur"
	slot      int    // slot: its id
	mul, add  int64  // yield: value i*mul+add
	valSlot   int    // yield: >0 -> the value expression also calls S(valSlot) (adds 0)
	guard     string // yield: "", "<", ">="
	glim      int64
	guardSlot int    // yield: >0 -> the guard also calls S(guardSlot) (adds 0)
	d         int64  // recur(i + d)
	kmode     string // recur, bodies with the keyword parameter k: "omit", "carry", "nil", "const", "flip"
	kconst    int64
	useK      bool   // yield: the value adds (1000 if k == nil else k)
	jmode     string // recur, bodies with a second positional parameter j: "omit" (-> nil), "carry", "const"
	jconst    int64
	useJ      bool // yield: the value adds (2000 if j == nil else j)
}

// kState is the keyword argument `k` of a generated body that declares `|i, k: 7|`.
type kState struct {
	isNil bool
	v     int64
}

const genKDefault = 7

func (k kState) term() int64 {
	if k.isNil {
		return 1000
	}
	return k.v
}

func genBody(t *tape.Tape, base int, hasK, hasJ bool) []bodyStmt {
	var b []bodyStmt
	id := base
	n := 2 + t.Intn(4)
	haveYield, haveRecur := false, false
	for k := 0; k < n; k++ {
		switch t.Pick(2, 4, 2) {
		case 0:
			id++
			b = append(b, bodyStmt{kind: "slot", slot: id})
		case 1:
			y := bodyStmt{kind: "yield", mul: []int64{1, 10, 0}[t.Pick(3, 2, 1)], add: int64(t.Intn(3))}
			if t.Chance(1, 3) {
				id++
				y.valSlot = id
			}
			switch t.Pick(2, 4, 1) {
			case 1:
				y.guard, y.glim = "<", int64(1+t.Intn(6))
			case 2:
				y.guard, y.glim = ">=", int64(t.Intn(3))
			}
			if y.guard != "" && t.Chance(1, 4) {
				id++
				y.guardSlot = id
			}
			y.useK = hasK && t.Chance(2, 3)
			y.useJ = hasJ && t.Chance(2, 3)
			b = append(b, y)
			haveYield = true
		default:
			r := bodyStmt{kind: "recur", d: int64(1 + t.Intn(3))}
			if hasK {
				r.kmode = []string{"omit", "carry", "nil", "const", "flip"}[t.Intn(5)]
				r.kconst = int64(2 + t.Intn(5))
			}
			if hasJ {
				r.jmode = []string{"omit", "carry", "const"}[t.Intn(3)]
				r.jconst = int64(30 + t.Intn(5))
			}
			b = append(b, r)
			haveRecur = true
		}
	}
	if !haveYield {
		b = append(b, bodyStmt{kind: "yield", mul: 1, guard: "<", glim: int64(2 + t.Intn(5))})
	}
	if !haveRecur && t.Chance(4, 5) {
		r := bodyStmt{kind: "recur", d: int64(1 + t.Intn(2))}
		if hasK {
			r.kmode = []string{"omit", "carry", "nil", "const", "flip"}[t.Intn(5)]
			r.kconst = int64(2 + t.Intn(5))
		}
		if hasJ {
			r.jmode = []string{"omit", "carry", "const"}[t.Intn(3)]
			r.jconst = int64(30 + t.Intn(5))
		}
		b = append(b, r)
	}
	return b
}

func genSource(b []bodyStmt, hasK, hasJ bool) string {
	var parts []string
	for _, st := range b {
		switch st.kind {
		case "slot":
			parts = append(parts, fmt.Sprintf("S(%d)", st.slot))
		case "yield":
			v := fmt.Sprintf("(i * %d + %d)", st.mul, st.add)
			if st.valSlot > 0 {
				v = fmt.Sprintf("(i * %d + %d + S(%d) - %d)", st.mul, st.add, st.valSlot, st.valSlot)
			}
			if st.useK {
				v = "(" + v + " + (1000 if k == nil else k))"
			}
			if st.useJ {
				v = "(" + v + " + (2000 if j == nil else j))"
			}
			y := "yield " + v
			if st.guard != "" {
				lhs := "i"
				if st.guardSlot > 0 {
					lhs = fmt.Sprintf("(i + S(%d) - %d)", st.guardSlot, st.guardSlot)
				}
				y += fmt.Sprintf(" if %s %s %d", lhs, st.guard, st.glim)
			}
			parts = append(parts, y)
		default:
			kw := ""
			switch st.kmode {
			case "carry":
				kw = ", k: k"
			case "nil":
				kw = ", k: nil"
			case "const":
				kw = fmt.Sprintf(", k: %d", st.kconst)
			case "flip":
				kw = fmt.Sprintf(", k: (%d if k == nil else nil)", st.kconst)
			}
			pos := ""
			switch st.jmode {
			case "carry":
				pos = ", j"
			case "const":
				pos = fmt.Sprintf(", %d", st.jconst)
			}
			parts = append(parts, fmt.Sprintf("recur(i + %d%s%s)", st.d, pos, kw))
		}
	}
	params := "i"
	if hasJ {
		params += ", j"
	}
	if hasK {
		params += fmt.Sprintf(", k: %d", genKDefault)
	}
	return "<{|" + params + "| " + strings.Join(parts, "; ") + "}>"
}

// genNext is one `next` of a generated body with argument i: every statement is evaluated
// in order; a guarded yield whose condition is false raises StopIterErr on the spot; the
// first yield reached supplies the value; the most recent recur supplies the next argument
// (also when the activation ends in an error afterwards). faultIdx: the slot invocation
// (counted within this activation) that raises, or -1.
func genNext(b []bodyStmt, i int64, k, j kState, faultIdx int) (val int64, stop, errored bool, ni int64, nk, nj kState, trace []int) {
	ni, nk, nj = i, k, j
	yielded := false
	call := func(id int) bool {
		trace = append(trace, id)
		return len(trace)-1 == faultIdx
	}
	for _, st := range b {
		switch st.kind {
		case "slot":
			if call(st.slot) {
				return 0, false, true, ni, nk, nj, trace
			}
		case "yield":
			if st.guard != "" {
				if st.guardSlot > 0 && call(st.guardSlot) {
					return 0, false, true, ni, nk, nj, trace
				}
				ok := i < st.glim
				if st.guard == ">=" {
					ok = i >= st.glim
				}
				if !ok {
					return 0, true, false, ni, nk, nj, trace
				}
			}
			if st.valSlot > 0 && call(st.valSlot) {
				return 0, false, true, ni, nk, nj, trace
			}
			if !yielded {
				yielded, val = true, i*st.mul+st.add
				if st.useK {
					val += k.term()
				}
				if st.useJ {
					if j.isNil {
						val += 2000
					} else {
						val += j.v
					}
				}
			}
		default:
			ni = i + st.d
			switch st.jmode {
			case "omit":
				nj = kState{isNil: true} // a positional parameter recur does not supply is nil
			case "carry":
				nj = j
			case "const":
				nj = kState{v: st.jconst}
			}
			switch st.kmode {
			case "omit":
				nk = kState{v: genKDefault} // not given: the declared default
			case "carry":
				nk = k
			case "nil":
				nk = kState{isNil: true} // nil given is nil, not "not given"
			case "const":
				nk = kState{v: st.kconst}
			case "flip":
				if k.isNil {
					nk = kState{v: st.kconst}
				} else {
					nk = kState{isNil: true}
				}
			}
		}
	}
	return val, false, false, ni, nk, nj, trace
}

func traceIDs(r harness.Result) []int {
	ids := make([]int, 0, len(r.Trace))
	for _, e := range r.Trace {
		ids = append(ids, e.ID)
	}
	return ids
}

type iterState struct {
	fam  int
	i    int64
	step int64
	j    string // second argument (Inspect text; "nil" when not given)
	k    kState // keyword argument of generated bodies
	jj   kState // second positional argument of generated bodies
}

// step models one `next`: value, stop?, and the successor state. fault: the slot raises.
func (f iterFam) next(st iterState, fault bool) (val string, stop bool, errored bool, ns iterState) {
	v, stop, errored, ns := f.nextInt(st, fault)
	switch f.kind {
	case "falsyyield":
		return "0", stop, errored, ns
	case "nilyield":
		return "nil", stop, errored, ns
	case "twoparam":
		return fmt.Sprintf("[%d, %s]", v, st.j), stop, errored, ns
	}
	return fmt.Sprint(v), stop, errored, ns
}

func (f iterFam) nextInt(st iterState, fault bool) (val int64, stop bool, errored bool, ns iterState) {
	ns = st
	d := f.step
	if f.kw {
		d = st.step
	}
	adv := st
	adv.i = st.i + d
	if fault {
		if f.recurBeforeSlot {
			ns = adv
		}
		return 0, false, true, ns
	}
	switch f.kind {
	case "guard", "kw", "implicit", "falsyyield", "twoparam", "nilyield":
		if st.i < f.lim {
			return st.i, false, false, adv
		}
		return 0, true, false, st
	case "implicit2":
		if st.i < f.lim {
			return st.i * 10, false, false, adv
		}
		return 0, true, false, st
	case "kwonly":
		if st.i < f.lim {
			ns = st
			ns.i = f.step // recur() without arguments: k takes its default again
			return st.i, false, false, ns
		}
		return 0, true, false, st
	case "noguard":
		return st.i, false, false, adv
	case "recurfirst", "slotafterrecur":
		if st.i < f.lim {
			return st.i, false, false, adv
		}
		return 0, true, false, adv
	case "twoyields":
		if st.i < f.lim {
			return st.i * 10, false, false, adv
		}
		return 0, true, false, st
	case "norecur":
		if st.i < f.lim {
			return st.i, false, false, st
		}
		return 0, true, false, st
	}
	panic("unknown family")
}

func (f iterFam) finite() bool {
	return f.guard && f.recur && f.step >= 1 && f.kind != "localstate" && f.kind != "argvars" && f.kind != "kwonly"
}

type C14Stats struct {
	Histories int             `json:"histories"`
	Actions   int             `json:"actions"`
	Ops       map[string]int  `json:"ops"`
	Families  map[string]int  `json:"families"`
	Faults    int             `json:"faults_fired"`
	Stops     int             `json:"stopiter_observed"`
	Handles   int             `json:"handles_created"`
	Aliases   int             `json:"aliases"`
	Interleav map[string]bool `json:"-"`
	InterKeys []string        `json:"interleaving_keys"`
	Samples   []interface{}   `json:"samples"`
}

func newC14Stats() *C14Stats {
	return &C14Stats{Ops: map[string]int{}, Families: map[string]int{}, Interleav: map[string]bool{}}
}
func (s *C14Stats) MarshalJSON() ([]byte, error) {
	type plain C14Stats
	s.InterKeys = s.InterKeys[:0]
	for k := range s.Interleav {
		s.InterKeys = append(s.InterKeys, k)
	}
	sort.Strings(s.InterKeys)
	return json.Marshal((*plain)(s))
}
func (s *C14Stats) Merge(raw json.RawMessage) error {
	o := newC14Stats()
	type plain C14Stats
	if err := json.Unmarshal(raw, (*plain)(o)); err != nil {
		return err
	}
	s.Histories += o.Histories
	s.Actions += o.Actions
	s.Faults += o.Faults
	s.Stops += o.Stops
	s.Handles += o.Handles
	s.Aliases += o.Aliases
	for k, v := range o.Ops {
		s.Ops[k] += v
	}
	for k, v := range o.Families {
		s.Families[k] += v
	}
	for _, k := range o.InterKeys {
		s.Interleav[k] = true
	}
	if len(s.Samples) < 3 {
		s.Samples = append(s.Samples, o.Samples...)
	}
	return nil
}

type c14Check struct {
	it   *harness.Interp
	tier string
}

func (c *c14Check) ID() string      { return "C14" }
func (c *c14Check) Level() string   { return "exploration" }
func (c *c14Check) Flavour() string { return "plain" }
func (c *c14Check) Runs(tier string) int {
	if tier == "thorough" {
		return 2000000
	}
	return 30000
}
func (c *c14Check) BudgetS(tier string) int {
	if tier == "thorough" {
		return 1200
	}
	return 60
}
func (c *c14Check) NewStats() Stats { return newC14Stats() }
func (c *c14Check) Init(tier string) {
	c.tier = tier
	if c.it == nil {
		c.it = harness.NewInterp()
	}
}

func intsInspect(v []int64) string {
	parts := make([]string, len(v))
	for i, x := range v {
		parts[i] = fmt.Sprint(x)
	}
	return "[" + strings.Join(parts, ", ") + "]"
}

func (c *c14Check) Run(seed, run uint64, rec []uint32, st Stats, only *Viol) []Viol {
	s := st.(*C14Stats)
	var t *tape.Tape
	if rec != nil {
		t = tape.Replay(rec)
	} else {
		t = tape.New(seed^hashID("C14"), run)
	}
	s.Histories++
	// 1..2 generator literals
	kinds := []string{"guard", "noguard", "recurfirst", "twoyields", "norecur", "kw", "slotafterrecur", "implicit", "implicit2", "falsyyield", "twoparam", "nilyield", "localstate", "argvars", "kwonly", "gen", "gen", "gen", "gen", "gen", "gen"}
	nf := 1 + t.Intn(2)
	fams := make([]iterFam, nf)
	env := object.NewEnclosedEnv(c.it.Global)
	var log []string
	eval := func(line string, plan map[int]harness.Ret) harness.Result {
		prog, err := harness.Parse(line)
		if err != nil {
			return harness.Result{Panic: "PARSE " + err.Error()}
		}
		log = append(log, line)
		return c.it.RunIn(prog, &harness.Callee{Plan: plan}, env)
	}
	eval("seen0 := 0", nil)
	for i := range fams {
		k := kinds[t.Intn(len(kinds))]
		f := iterFam{kind: k, lim: int64(2 + t.Intn(6)), step: int64(1 + t.Intn(3)), slot: i + 1}
		f.kw = k == "kw"
		f.guard = k != "noguard"
		f.recur = k != "norecur"
		f.recurBeforeSlot = k == "slotafterrecur"
		if k == "gen" {
			f.hasK = t.Chance(1, 3)
			f.hasJ = t.Chance(1, 3)
			f.body = genBody(t, 100*(i+1), f.hasK, f.hasJ)
		}
		fams[i] = f
		s.Families[k]++
		r := eval(fmt.Sprintf("g%d := %s", i, f.source()), nil)
		if r.Err != nil || r.Panic != "" {
			return nil
		}
	}
	// model: names -> handle ids -> state
	names := map[string]int{}
	var handles []iterState
	var nameList []string
	var viols []Viol
	var inter []string
	fail := func(op, fam, what string, exp, act interface{}) {
		viols = append(viols, Viol{Prop: "C14", Run: run, Seed: seed, Tape: append([]uint32(nil), t.Rec...), Engine: "session",
			Signature: fmt.Sprintf("C14/%s/%s/%s", op, fam, what),
			Derived:   map[string]interface{}{"history": append([]string(nil), log...)},
			Expected:  map[string]interface{}{"result": exp}, Actual: map[string]interface{}{"result": act}})
	}
	describe := func(r harness.Result) string {
		switch {
		case r.Panic != "":
			return "PANIC " + r.Panic
		case r.Err != nil:
			return "Raise(" + r.Err.Kind() + ": " + r.Err.Msg + ")"
		case r.Obj != nil:
			return r.Obj.Inspect()
		}
		return "<nil>"
	}
	countSlot := func(r harness.Result, id int) int {
		n := 0
		for _, e := range r.Trace {
			if e.ID == id {
				n++
			}
		}
		return n
	}
	nact := 4 + t.Intn(22)
	for a := 0; a < nact && len(viols) == 0; a++ {
		s.Actions++
		op := t.Pick(3, 1, 8, 2, 1, 1, 1, 1, 3, 2)
		if len(nameList) == 0 {
			op = 0
		}
		pickName := func() string { return nameList[t.Intn(len(nameList))] }
		bind := func(name string, h int) {
			if _, ok := names[name]; !ok {
				nameList = append(nameList, name)
			}
			names[name] = h
		}
		switch op {
		case 0: // new from the literal
			fi := t.Intn(nf)
			f := fams[fi]
			name := fmt.Sprintf("h%d", t.Intn(4))
			arg := int64(t.Intn(5))
			line := fmt.Sprintf("%s := g%d.new(%d)", name, fi, arg)
			stt := iterState{fam: fi, i: arg, step: f.step, j: "nil", k: kState{v: genKDefault}, jj: kState{isNil: true}}
			if f.kind == "twoparam" && t.Chance(1, 2) {
				stt.j = fmt.Sprint(40 + t.Intn(9))
				line = fmt.Sprintf("%s := g%d.new(%d, %s)", name, fi, arg, stt.j)
			}
			if f.kind == "kwonly" {
				line = fmt.Sprintf("%s := g%d.new(k: %d)", name, fi, arg)
			}
			if f.kind == "argvars" && t.Chance(1, 2) {
				line = fmt.Sprintf("%s := g%d.new(%d, %d)", name, fi, arg, 40+t.Intn(9))
			}
			if f.kind == "gen" && (f.hasK || f.hasJ) {
				pos, kw := "", ""
				if f.hasJ && t.Chance(1, 2) {
					stt.jj = kState{v: int64(50 + t.Intn(5))}
					pos = fmt.Sprintf(", %d", stt.jj.v)
				}
				if f.hasK {
					switch t.Intn(3) {
					case 1:
						stt.k = kState{v: int64(20 + t.Intn(5))}
						kw = fmt.Sprintf(", k: %d", stt.k.v)
					case 2:
						stt.k = kState{isNil: true}
						kw = ", k: nil"
					}
				}
				line = fmt.Sprintf("%s := g%d.new(%d%s%s)", name, fi, arg, pos, kw)
			}
			if f.kw && t.Chance(1, 2) {
				stt.step = int64(1 + t.Intn(3))
				line = fmt.Sprintf("%s := g%d.new(%d, step: %d)", name, fi, arg, stt.step)
			}
			r := eval(line, nil)
			s.Ops["new"]++
			s.Handles++
			inter = append(inter, "new")
			if r.Err != nil || r.Panic != "" {
				fail("new", f.kind, "error", "an iterator", describe(r))
				break
			}
			handles = append(handles, stt)
			bind(name, len(handles)-1)
		case 1: // new from an existing handle: fresh and independent
			src := pickName()
			h := handles[names[src]]
			f := fams[h.fam]
			name := fmt.Sprintf("h%d", t.Intn(4))
			arg := int64(t.Intn(5))
			r := eval(fmt.Sprintf("%s := %s.new(%d)", name, src, arg), nil)
			s.Ops["new-from-handle"]++
			s.Handles++
			inter = append(inter, "hnew")
			if r.Err != nil || r.Panic != "" {
				fail("new-from-handle", f.kind, "error", "an iterator", describe(r))
				break
			}
			st2 := iterState{fam: h.fam, i: arg, step: f.step, j: "nil", k: kState{v: genKDefault}, jj: kState{isNil: true}}
			if f.kind == "kwonly" {
				st2.i = f.step // no positional parameter: the argument is ignored, k has its default
			}
			handles = append(handles, st2)
			bind(name, len(handles)-1)
		case 2: // next, possibly with the body's slot raising
			name := pickName()
			hi := names[name]
			h := handles[hi]
			f := fams[h.fam]
			fault := t.Chance(1, 8)
			var plan map[int]harness.Ret
			faultIdx := -1
			if fault {
				faultIdx = 0
				if f.kind == "gen" {
					faultIdx = t.Intn(3)
				}
				plan = map[int]harness.Ret{faultIdx: {Kind: "raise", S: "ValueErr", Msg: "injnext"}}
				s.Faults++
			}
			r := eval(name+".next", plan)
			s.Ops["next"]++
			inter = append(inter, fmt.Sprintf("n%d", hi))
			if f.kind == "localstate" || f.kind == "argvars" {
				if r.Panic != "" {
					fail("next", f.kind, "panic", "a value or an error", describe(r))
				}
				break
			}
			if f.kind == "gen" {
				val, stop, errored, ni, nk, nj, trace := genNext(f.body, h.i, h.k, h.jj, faultIdx)
				h.i, h.k, h.jj = ni, nk, nj
				handles[hi] = h
				if got := traceIDs(r); fmt.Sprint(got) != fmt.Sprint(trace) {
					fail("next", f.kind, "evalcount", fmt.Sprintf("callee invocations %v (every statement of the body once, up to the one that ends the activation)", trace), fmt.Sprintf("%v; result %s", got, describe(r)))
					break
				}
				switch {
				case errored:
					if r.Err == nil || r.Err.Kind() != "ValueErr" || r.Err.Msg != "injnext" {
						fail("next", f.kind, "fault", "Raise(ValueErr: injnext)", describe(r))
					}
				case stop:
					s.Stops++
					if r.Err == nil || r.Err.Kind() != "StopIterErr" {
						fail("next", f.kind, "stop", "Raise(StopIterErr)", describe(r))
					}
				default:
					if r.Err != nil || r.Panic != "" || r.Obj == nil || r.Obj.Inspect() != fmt.Sprint(val) {
						fail("next", f.kind, "value", fmt.Sprint(val), describe(r))
					}
				}
				break
			}
			val, stop, errored, ns := f.next(h, fault)
			handles[hi] = ns
			if n := countSlot(r, f.slot); n != 1 {
				fail("next", f.kind, "evalcount", "body evaluated once", fmt.Sprintf("slot invoked %d times; result %s", n, describe(r)))
				break
			}
			switch {
			case errored:
				if r.Err == nil || r.Err.Kind() != "ValueErr" || r.Err.Msg != "injnext" {
					fail("next", f.kind, "fault", "Raise(ValueErr: injnext)", describe(r))
				}
			case stop:
				s.Stops++
				if r.Err == nil || r.Err.Kind() != "StopIterErr" {
					fail("next", f.kind, "stop", "Raise(StopIterErr)", describe(r))
				}
			default:
				if r.Err != nil || r.Panic != "" || r.Obj == nil || r.Obj.Inspect() != val {
					fail("next", f.kind, "value", val, describe(r))
				}
			}
		case 3, 4, 5: // A / list chain / reduce chain over a finite iterator: visits, does not advance
			name := pickName()
			hi := names[name]
			h := handles[hi]
			f := fams[h.fam]
			genFinite := false
			var genVals []int64
			var genTrace []int
			if f.kind == "gen" {
				cur, curK, curJ := h.i, h.k, h.jj
				for k := 0; k < 40; k++ {
					v, stop, _, ni, nk, nj, tr := genNext(f.body, cur, curK, curJ, -1)
					genTrace = append(genTrace, tr...)
					if stop {
						genFinite = true
						break
					}
					genVals = append(genVals, v)
					cur, curK, curJ = ni, nk, nj
				}
			}
			if (f.kind == "gen" && !genFinite) || (f.kind != "gen" && !f.finite()) {
				a--
				s.Actions--
				if t.Chance(1, 4) {
					a++ // avoid spinning when only infinite iterators exist
				}
				continue
			}
			var vals []int64
			var svals []string
			cur := h
			for guard := 0; guard < 100 && f.kind != "gen"; guard++ {
				sv, stop, _, _ := f.next(cur, false)
				v, _, _, ns := f.nextInt(cur, false)
				if stop {
					break
				}
				if f.kind == "falsyyield" {
					v = 0
				}
				vals = append(vals, v)
				svals = append(svals, sv)
				cur = ns
			}
			if f.kind == "gen" {
				vals = genVals
				for _, v := range genVals {
					svals = append(svals, fmt.Sprint(v))
				}
			}
			if (f.kind == "twoparam" || f.kind == "nilyield") && op != 3 {
				op = 3 // arithmetic chains need int values: use A for these families
			}
			if f.kind == "nilyield" {
				svals = nil // `A` is a list chain: nil values are visited but not collected
			}
			var line, want, opn string
			switch op {
			case 3:
				line, want, opn = name+".A", "["+strings.Join(svals, ", ")+"]", "A"
			case 4:
				dbl := make([]int64, len(vals))
				for i, v := range vals {
					dbl[i] = v*2 + 1
				}
				line, want, opn = name+"@{|x| x * 2 + 1}", intsInspect(dbl), "listchain"
			default:
				var sum int64 = 100
				for _, v := range vals {
					sum += v
				}
				line, want, opn = name+"$(100){|acc, x| acc + x}", fmt.Sprint(sum), "reducechain"
			}
			r := eval(line, nil)
			s.Ops[opn]++
			inter = append(inter, fmt.Sprintf("%s%d", opn[:1], hi))
			if r.Err != nil || r.Panic != "" || r.Obj == nil || r.Obj.Inspect() != want {
				fail(opn, f.kind, "value", want, describe(r))
				break
			}
			if f.kind == "gen" {
				if got := traceIDs(r); fmt.Sprint(got) != fmt.Sprint(genTrace) {
					fail(opn, f.kind, "evalcount", fmt.Sprintf("callee invocations %v", genTrace), fmt.Sprint(got))
				}
			} else if n := countSlot(r, f.slot); n != len(vals)+1 {
				fail(opn, f.kind, "evalcount", fmt.Sprintf("%d body evaluations", len(vals)+1), fmt.Sprintf("%d", n))
			}
			// handle state unchanged (checked by later next calls)
		case 8: // fresh is fresh: `h.new(a)` behaves like `gN.new(a)`, whatever h has been through
			src := pickName()
			h := handles[names[src]]
			f := fams[h.fam]
			arg := int64(t.Intn(5))
			probe := "[pf.try.next.A.S, pf.try.next.A.S, pf.try.next.A.S]"
			r1 := eval(fmt.Sprintf("pf := %s.new(%d); %s", src, arg, probe), nil)
			r2 := eval(fmt.Sprintf("pf := g%d.new(%d); %s", h.fam, arg, probe), nil)
			s.Ops["fresh-vs-fresh"]++
			inter = append(inter, "fresh")
			d1, d2 := describe(r1)+" callee="+fmt.Sprint(traceIDs(r1)), describe(r2)+" callee="+fmt.Sprint(traceIDs(r2))
			if d1 != d2 {
				fail("fresh-vs-fresh", f.kind, "differs", "first three results of "+src+".new(a) = those of the literal's new(a): "+d2, d1)
			}
		case 9: // a chain (or A) leaves the iterator it was applied to where it was - also when the
			// body keeps its progress where neither recur nor new rebinds it (model-free: two fresh
			// iterators, one of them chained over first, must go on alike)
			fi := t.Intn(nf)
			f := fams[fi]
			if !(f.finite() || f.kind == "localstate") || f.kind == "gen" {
				continue
			}
			arg := int64(t.Intn(4))
			chain := []string{"pa.A", "pa@{|x| x}", "pa$(0){|acc, x| x}", "pa~@{|x| x}"}[t.Intn(4)]
			probe := "[%s.try.next.A.S, %s.try.next.A.S]"
			r1 := eval(fmt.Sprintf("pa := g%d.new(%d); %s; "+probe, fi, arg, chain, "pa", "pa"), nil)
			r2 := eval(fmt.Sprintf("pb := g%d.new(%d); "+probe, fi, arg, "pb", "pb"), nil)
			s.Ops["chain-leaves-receiver"]++
			inter = append(inter, "chainfresh")
			if d1, d2 := describe(r1), describe(r2); d1 != d2 {
				fail("chain-leaves-receiver", f.kind, "differs", "after "+chain+" the iterator goes on like an untouched one: "+d2, d1)
			}
		case 6: // copy through _iter: independent state equal to the current one
			src := pickName()
			h := handles[names[src]]
			name := fmt.Sprintf("c%d", t.Intn(3))
			r := eval(fmt.Sprintf("%s := %s._iter", name, src), nil)
			s.Ops["_iter"]++
			s.Handles++
			inter = append(inter, "copy")
			if r.Err != nil || r.Panic != "" {
				fail("_iter", fams[h.fam].kind, "error", "an iterator", describe(r))
				break
			}
			handles = append(handles, h)
			bind(name, len(handles)-1)
		default: // alias: two names, one iterator
			src := pickName()
			name := fmt.Sprintf("h%d", t.Intn(4))
			if name == src {
				continue
			}
			r := eval(fmt.Sprintf("%s := %s", name, src), nil)
			s.Ops["alias"]++
			s.Aliases++
			inter = append(inter, "alias")
			if r.Err != nil || r.Panic != "" {
				fail("alias", "-", "error", "an iterator", describe(r))
				break
			}
			bind(name, names[src])
		}
	}
	s.Interleav[strings.Join(inter, ",")] = true
	if len(s.Samples) < 2 {
		s.Samples = append(s.Samples, map[string]interface{}{"history": log})
	}
	return viols
}

func (c *c14Check) Evidence(st Stats, tier string) (map[string]interface{}, []string) {
	s := st.(*C14Stats)
	cov := map[string]interface{}{
		"evaluations":          s.Actions,
		"distinct_nontrivial":  len(s.Interleav),
		"rule":                 "one case = a history of up to 25 tape-chosen actions (new from the literal, new from a handle, next with optional body fault, A, list chain, reduce chain, _iter copy, alias) by logical clients over up to 4+3 names bound to iterators made from 1..2 literals whose body is one of 12 fixed families or a tape-generated statement list (slots, plain and guarded yields with effectful values and guards, recurs) with its own reference semantics, each action a separately parsed line in one shared scope; distinct_nontrivial = distinct (operation, handle) sequences",
		"samples":              s.Samples,
		"histories":            s.Histories,
		"ops":                  s.Ops,
		"body_families":        s.Families,
		"faults_fired_in_body": s.Faults,
		"stopiter_observed":    s.Stops,
		"handles_created":      s.Handles,
		"aliases":              s.Aliases,
		"simulated_time":       "none; steps = actions",
		"real_vs_stub":         realVsStub,
	}
	if len(s.Samples) == 0 {
		cov["samples"] = []interface{}{"(none)"}
	}
	return cov, []string{
		"what a body-local assignment or an unbound argument variable means for LATER next calls of the same iterator is not stated; bodies that depend on it (families localstate, argvars) are therefore judged only by `h.new(a)` against the literal's own `new(a)` (fresh is fresh), never against a model",
		"A and chains are only applied to iterators of finite families (guarded yield, recur, positive step)",
		"an alias (h1 := h0) names the same iterator and shares its progress by definition; independence is demanded of new and _iter",
	}
}

func init() { register("C14", func() Check { return &c14Check{} }) }
