//go:build !verifhttp

package checks

import (
	"fmt"
	"net/http"

	"verifsim/harness"
)

// HTTPAvailable is false: the HTTP overlay did not compile against this tree.
const HTTPAvailable = false

type httpReq struct {
	Method, Target, Body string
	Header               map[string]string
}

func newHTTPHandler(it *harness.Interp) (http.Handler, error) {
	return nil, fmt.Errorf("HTTP front-end unavailable")
}

func serveOnce(h http.Handler, rq httpReq) string { return "unavailable" }
