package checks

import (
	"bytes"
	"encoding/json"
	"fmt"
	"os"
	"os/exec"
	"path/filepath"
	"regexp"
	"sort"
	"strings"
	"time"

	"github.com/anishathalye/porcupine"
)

// ---- shared helpers for the SCHED engine (C20, C08-S3) ----

type schedOut struct {
	Mode          string              `json:"mode"`
	Seed          uint64              `json:"seed"`
	Run           uint64              `json:"run"`
	Tape          []uint32            `json:"tape"`
	Tasks         int                 `json:"tasks"`
	Yields        uint32              `json:"yields"`
	Switches      []map[string]uint32 `json:"switches"`
	SchedHash     string              `json:"sched_hash"`
	Races         []vcRace            `json:"vc_races"`
	Ops           int                 `json:"symtab_ops"`
	OpsList       []symOp             `json:"ops"`
	Deadlock      bool                `json:"deadlock"`
	SiteHits      map[string]uint32   `json:"site_hits"`
	AfterWrite    uint32              `json:"switch_after_table_write"`
	Panics        []string            `json:"panics"`
	Isolation     []string            `json:"isolation_mismatches"`
	Programs      []string            `json:"programs"`
	Fingerprint   string              `json:"fingerprint"`
	Probes        []string            `json:"probes"`
	RaceBuild     bool                `json:"race_build"`
	Ties          int                 `json:"maporder_ties"`
	FreeformLines int                 `json:"freeform_lines"`
	SweepLines    int                 `json:"sweep_lines"`
	SharedChanged []string            `json:"shared_values_changed"`
	SwitchPerK    uint32              `json:"switch_per_k"`
	EvalPerK      uint32              `json:"eval_per_k"`
}

type vcRace struct {
	Var    string
	Site1  string
	Site2  string
	Write1 bool
	Write2 bool
	Task1  int
	Task2  int
}

type symOp struct {
	Task uint8
	Kind uint8
	Call uint32
	Ret  uint32
	Hash uint64
	Str  string
	OK   bool
	Done bool
}

type tsanReport struct {
	Funcs [2]string // first repository frame of each access
	Text  string
	Infra bool // no repository frame at all (seam or harness memory): infrastructure
}

var frameRe = regexp.MustCompile(`^\s+(\S+)\(\)\s*$`)

// parseTSan extracts DATA RACE reports from a child's stderr.
func parseTSan(stderr string) []tsanReport {
	var out []tsanReport
	blocks := strings.Split(stderr, "WARNING: DATA RACE")
	for _, b := range blocks[1:] {
		if i := strings.Index(b, "=================="); i >= 0 {
			b = b[:i]
		}
		// the first two paragraphs are the two accesses
		paras := strings.Split(strings.TrimSpace(b), "\n\n")
		var r tsanReport
		r.Text = "WARNING: DATA RACE" + b
		n := 0
		for _, p := range paras {
			first := strings.SplitN(strings.TrimSpace(p), "\n", 2)[0]
			if !(strings.Contains(first, " at 0x") && strings.Contains(first, "by ")) {
				continue
			}
			if n >= 2 {
				break
			}
			for _, line := range strings.Split(p, "\n") {
				m := frameRe.FindStringSubmatch(line)
				if m == nil {
					continue
				}
				fn := m[1]
				if strings.HasPrefix(fn, "github.com/Syuparn/pangaea/") && !strings.Contains(fn, "/verifseam.") {
					fn = strings.TrimPrefix(fn, "github.com/Syuparn/pangaea/")
					fn = strings.Replace(fn, "verifseamOrig", "", 1)
					r.Funcs[n] = fn
					break
				}
			}
			n++
		}
		if r.Funcs[0] == "" && r.Funcs[1] == "" {
			r.Infra = true
		}
		out = append(out, r)
	}
	return out
}

// runSchedChild runs one scheduled simulation in a fresh OS process.
func runSchedChild(mode string, seed, run uint64, explicit *schedOut, timeout time.Duration, extra ...string) (*schedOut, string, error) {
	self, _ := os.Executable()
	args := []string{"schedrun", "-mode", mode, "-seed", fmt.Sprint(seed), "-run", fmt.Sprint(run), "-ops"}
	args = append(args, extra...)
	var tmp string
	if explicit != nil {
		dir := os.Getenv("VERIF_SCRATCH")
		if dir == "" {
			dir = os.TempDir()
		}
		f, err := os.CreateTemp(dir, "explicit-*.json")
		if err != nil {
			return nil, "", err
		}
		b, _ := json.Marshal(explicit)
		f.Write(b)
		f.Close()
		tmp = f.Name()
		defer os.Remove(tmp)
		args = append(args, "-explicit", tmp)
	}
	cmd := exec.Command(self, args...)
	gmp := "2"
	if v := os.Getenv("VERIF_GOMAXPROCS"); v != "" {
		gmp = v
	}
	cmd.Env = append(os.Environ(), "GORACE=halt_on_error=0 exitcode=0", "GOMAXPROCS="+gmp)
	var so, se bytes.Buffer
	cmd.Stdout, cmd.Stderr = &so, &se
	if err := cmd.Start(); err != nil {
		return nil, "", err
	}
	done := make(chan error, 1)
	go func() { done <- cmd.Wait() }()
	select {
	case err := <-done:
		if err != nil {
			return nil, se.String(), fmt.Errorf("child failed: %v", err)
		}
	case <-time.After(timeout):
		cmd.Process.Kill()
		<-done
		return nil, se.String(), fmt.Errorf("child timed out after %v (watchdog)", timeout)
	}
	var out schedOut
	if err := json.Unmarshal(bytes.TrimSpace(so.Bytes()), &out); err != nil {
		return nil, se.String(), fmt.Errorf("bad child output: %v: %.300s", err, so.String())
	}
	return &out, se.String(), nil
}

// ---- porcupine model of the symbol tables ----

type symIn struct {
	Kind uint8
	Str  string
	Hash uint64
}
type symOut struct {
	Hash uint64
	Str  string
	OK   bool
}

// per hash: state = "" (not interned) or the interned string
var symModel = porcupine.Model{
	Partition: func(history []porcupine.Operation) [][]porcupine.Operation {
		m := map[uint64][]porcupine.Operation{}
		for _, op := range history {
			var h uint64
			if op.Input.(symIn).Kind == 0 {
				h = op.Output.(symOut).Hash
			} else {
				h = op.Input.(symIn).Hash
			}
			m[h] = append(m[h], op)
		}
		keys := make([]uint64, 0, len(m))
		for k := range m {
			keys = append(keys, k)
		}
		sort.Slice(keys, func(i, j int) bool { return keys[i] < keys[j] })
		var out [][]porcupine.Operation
		for _, k := range keys {
			out = append(out, m[k])
		}
		return out
	},
	Init: func() interface{} { return "" },
	Step: func(state, input, output interface{}) (bool, interface{}) {
		st := state.(string)
		in := input.(symIn)
		o := output.(symOut)
		if in.Kind == 0 { // GetSymHash(s) -> h : interns s
			if st == "" {
				return true, "+" + in.Str
			}
			return true, st
		}
		// SymHash2Str(h) -> (s, ok)
		if st == "" {
			return !o.OK, st
		}
		return o.OK && "+"+o.Str == st, st
	},
	Equal: func(a, b interface{}) bool { return a == b },
}

// checkSymLinearizable checks the recorded symbol-table history. preInterned: hashes
// converted back successfully before any recorded GetSymHash are treated as interned
// earlier (start-up happened before recording in warm mode).
func checkSymLinearizable(ops []symOp) (porcupine.CheckResult, string) {
	var hist []porcupine.Operation
	internedBefore := map[uint64]string{}
	seenGet := map[uint64]bool{}
	for _, op := range ops {
		if !op.Done {
			continue
		}
		if op.Kind == 0 {
			seenGet[op.Hash] = true
		} else if op.OK && !seenGet[op.Hash] {
			internedBefore[op.Hash] = op.Str
		}
	}
	// synthetic interning operations for symbols that existed before recording started
	clientBase := 1000
	i := 0
	for h, s := range internedBefore {
		hist = append(hist, porcupine.Operation{ClientId: clientBase, Input: symIn{Kind: 0, Str: s}, Call: int64(-2 - 2*i), Output: symOut{Hash: h}, Return: int64(-1 - 2*i)})
		i++
	}
	if len(ops) > 2000 {
		ops = ops[:2000]
	}
	for _, op := range ops {
		if !op.Done {
			continue
		}
		hist = append(hist, porcupine.Operation{ClientId: int(op.Task), Input: symIn{Kind: op.Kind, Str: op.Str, Hash: op.Hash}, Call: int64(op.Call),
			Output: symOut{Hash: op.Hash, Str: op.Str, OK: op.OK}, Return: int64(op.Ret)})
	}
	res := porcupine.CheckOperationsTimeout(symModel, hist, 20*time.Second)
	detail := ""
	if res == porcupine.Illegal {
		for _, op := range ops {
			if op.Done && op.Kind == 1 && !op.OK && seenGet[op.Hash] {
				detail = fmt.Sprintf("SymHash2Str(%d) by task %d at seq %d..%d returned !ok", op.Hash, op.Task, op.Call, op.Ret)
				break
			}
		}
	}
	return res, detail
}

// ---- C20 ----

type C20Stats struct {
	Runs        int              `json:"runs"`
	Startup     int              `json:"startup_runs"`
	Warm        int              `json:"warm_runs"`
	HTTP        int              `json:"http_runs"`
	Yields      int64            `json:"yields"`
	Switches    int64            `json:"switches"`
	Tasks       int64            `json:"tasks"`
	SymOps      int64            `json:"symtab_ops"`
	TSanReports int              `json:"tsan_reports"`
	VCRaces     int              `json:"vc_races"`
	LinChecked  int              `json:"histories_checked_porcupine"`
	LinUnknown  int              `json:"porcupine_unknown"`
	Deadlocks   int              `json:"deadlocks"`
	Timeouts    int              `json:"watchdog_timeouts"`
	Infra       int              `json:"infra_errors"`
	DetPairs    int              `json:"determinism_triples_checked"`
	AfterWrite  int64            `json:"switches_landing_after_a_table_write"`
	Freeform    int64            `json:"freeform_history_lines_run_concurrently"`
	Sweep       int64            `json:"property_sweep_reads_run_concurrently"`
	SiteHits    map[string]int64 `json:"yield_site_hits"`
	Scheds      map[string]bool  `json:"-"`
	SchedKeys   []string         `json:"sched_keys"`
	RateHist    map[string]int   `json:"switch_rate_swarm"`
	RaceBuild   bool             `json:"race_build"`
	Samples     []interface{}    `json:"samples"`
	InfraMsgs   []string         `json:"infra_msgs"`
}

func newC20Stats() *C20Stats {
	return &C20Stats{SiteHits: map[string]int64{}, Scheds: map[string]bool{}, RateHist: map[string]int{}}
}
func (s *C20Stats) MarshalJSON() ([]byte, error) {
	type plain C20Stats
	s.SchedKeys = s.SchedKeys[:0]
	for k := range s.Scheds {
		s.SchedKeys = append(s.SchedKeys, k)
	}
	sort.Strings(s.SchedKeys)
	return json.Marshal((*plain)(s))
}
func (s *C20Stats) Merge(raw json.RawMessage) error {
	o := newC20Stats()
	type plain C20Stats
	if err := json.Unmarshal(raw, (*plain)(o)); err != nil {
		return err
	}
	s.Runs += o.Runs
	s.Startup += o.Startup
	s.Warm += o.Warm
	s.HTTP += o.HTTP
	s.Yields += o.Yields
	s.Switches += o.Switches
	s.Tasks += o.Tasks
	s.SymOps += o.SymOps
	s.TSanReports += o.TSanReports
	s.VCRaces += o.VCRaces
	s.LinChecked += o.LinChecked
	s.LinUnknown += o.LinUnknown
	s.Deadlocks += o.Deadlocks
	s.Timeouts += o.Timeouts
	s.Infra += o.Infra
	s.DetPairs += o.DetPairs
	s.AfterWrite += o.AfterWrite
	s.Freeform += o.Freeform
	s.Sweep += o.Sweep
	s.RaceBuild = s.RaceBuild || o.RaceBuild
	for k, v := range o.SiteHits {
		s.SiteHits[k] += v
	}
	for k, v := range o.RateHist {
		s.RateHist[k] += v
	}
	for _, k := range o.SchedKeys {
		s.Scheds[k] = true
	}
	if len(s.Samples) < 3 {
		s.Samples = append(s.Samples, o.Samples...)
	}
	if len(s.InfraMsgs) < 5 {
		s.InfraMsgs = append(s.InfraMsgs, o.InfraMsgs...)
	}
	return nil
}

func (s *C20Stats) InfraCount() (int, []string) { return s.Infra, s.InfraMsgs }

func (s *C20Stats) absorb(o *schedOut) {
	s.Runs++
	switch o.Mode {
	case "startup":
		s.Startup++
	case "http":
		s.HTTP++
	default:
		s.Warm++
	}
	s.Yields += int64(o.Yields)
	s.Switches += int64(len(o.Switches))
	s.Tasks += int64(o.Tasks)
	s.SymOps += int64(o.Ops)
	s.AfterWrite += int64(o.AfterWrite)
	s.RaceBuild = s.RaceBuild || o.RaceBuild
	for k, v := range o.SiteHits {
		s.SiteHits[k] += int64(v)
	}
	s.Scheds[o.Mode+":"+o.SchedHash] = true
	s.RateHist[fmt.Sprintf("switch=%d/1024,eval=%d/1024", o.SwitchPerK, o.EvalPerK)]++
}

type c20Check struct{ tier string }

func (c *c20Check) ID() string      { return "C20" }
func (c *c20Check) Level() string   { return "exploration" }
func (c *c20Check) Flavour() string { return "seamrace" }
func (c *c20Check) Runs(tier string) int {
	if tier == "thorough" {
		return 60000
	}
	return 320
}
func (c *c20Check) BudgetS(tier string) int {
	if tier == "thorough" {
		return 1500
	}
	return 70
}
func (c *c20Check) NewStats() Stats  { return newC20Stats() }
func (c *c20Check) Init(tier string) { c.tier = tier }

func funcOfSite(site string) string {
	if i := strings.Index(site, "#"); i >= 0 {
		return site[:i]
	}
	return site
}

func (c *c20Check) Run(seed, run uint64, rec []uint32, st Stats, only *Viol) []Viol {
	s := st.(*C20Stats)
	mode := "warm"
	switch {
	case run%4 == 0:
		mode = "startup"
	case run%4 == 2 && HTTPAvailable:
		mode = "http"
	}
	var explicit *schedOut
	if only != nil {
		if m, ok := only.Derived["mode"].(string); ok {
			mode = m
		}
		if sched, ok := only.Derived["schedule"]; ok {
			b, _ := json.Marshal(sched)
			var sw []map[string]uint32
			json.Unmarshal(b, &sw)
			explicit = &schedOut{Tape: only.Tape, Switches: sw}
		}
	} else if rec != nil {
		// minimisation passes the tape only: keep the recorded schedule out of it
		explicit = &schedOut{Tape: rec}
	}
	out, stderr, err := runSchedChild(mode, seed, run, explicit, 120*time.Second)
	if err != nil {
		if strings.Contains(err.Error(), "watchdog") {
			s.Timeouts++
		}
		s.Infra++
		if len(s.InfraMsgs) < 5 {
			s.InfraMsgs = append(s.InfraMsgs, err.Error()+": "+clipStr(stderr, 600))
		}
		return nil
	}
	s.absorb(out)
	// determinism self-test on a sample: the same tape in another process, with another
	// GOMAXPROCS, and once more from the recorded explicit schedule, must give the
	// identical decision sequence
	if only == nil && rec == nil && run%12 == 1 {
		os.Setenv("VERIF_GOMAXPROCS", []string{"1", "4", "16"}[run%3])
		again, _, err2 := runSchedChild(mode, seed, run, nil, 120*time.Second)
		repl, _, err3 := runSchedChild(mode, seed, run, &schedOut{Tape: out.Tape, Switches: out.Switches}, 120*time.Second)
		os.Unsetenv("VERIF_GOMAXPROCS")
		s.DetPairs++
		if err2 != nil || err3 != nil || again.SchedHash != out.SchedHash || again.Yields != out.Yields || again.Ops != out.Ops ||
			repl.SchedHash != out.SchedHash || repl.Yields != out.Yields {
			s.Infra++
			if len(s.InfraMsgs) < 5 {
				s.InfraMsgs = append(s.InfraMsgs, fmt.Sprintf("non-deterministic schedule: mode=%s run=%d hashes %s / %v / %v", mode, run, out.SchedHash, again, repl))
			}
		}
	}
	if len(s.Samples) < 2 {
		s.Samples = append(s.Samples, map[string]interface{}{"mode": out.Mode, "tasks": out.Tasks, "yields": out.Yields, "switches": len(out.Switches),
			"schedule_head": headSwitches(out.Switches, 12), "programs": out.Programs, "switch_per_1024": out.SwitchPerK})
	}
	var viols []Viol
	mk := func(sig string, exp, act map[string]interface{}) {
		viols = append(viols, Viol{Prop: "C20", Run: run, Seed: seed, Tape: out.Tape, Engine: "sched", Signature: sig,
			Derived:  map[string]interface{}{"mode": out.Mode, "schedule": out.Switches, "tasks": out.Tasks, "programs": out.Programs, "sched_hash": out.SchedHash},
			Expected: exp, Actual: act})
	}
	if out.Deadlock {
		s.Deadlocks++
		s.Infra++
		return nil
	}
	// (1) ThreadSanitizer
	for _, r := range parseTSan(stderr) {
		s.TSanReports++
		if r.Infra {
			s.Infra++
			if len(s.InfraMsgs) < 5 {
				s.InfraMsgs = append(s.InfraMsgs, "race report without a repository frame: "+clipStr(r.Text, 800))
			}
			continue
		}
		f := []string{r.Funcs[0], r.Funcs[1]}
		sort.Strings(f)
		mk(fmt.Sprintf("C20/race/%s/%s", f[0], f[1]),
			map[string]interface{}{"race_detector": "no report with a frame in the repository's packages"},
			map[string]interface{}{"race_detector": clipStr(r.Text, 2500)})
	}
	// (2) own vector-clock check on the package-level tables
	for _, r := range out.Races {
		s.VCRaces++
		f := []string{funcOfSite(r.Site1), funcOfSite(r.Site2)}
		sort.Strings(f)
		mk(fmt.Sprintf("C20/vcrace/%s/%s/%s", r.Var, f[0], f[1]),
			map[string]interface{}{"happens_before": "every pair of conflicting accesses to " + r.Var + " ordered by the program's synchronisation"},
			map[string]interface{}{"unordered_accesses": fmt.Sprintf("%+v", r)})
	}
	// (3) linearizability of the symbol-table history
	if len(out.OpsList) > 0 {
		res, detail := checkSymLinearizable(out.OpsList)
		s.LinChecked++
		switch res {
		case porcupine.Illegal:
			mk("C20/linearizability/SymHash2Str", map[string]interface{}{"history": "linearizable against the interning-set model"},
				map[string]interface{}{"porcupine": "Illegal", "detail": detail})
		case porcupine.Unknown:
			s.LinUnknown++
		}
	}
	// (4) no task panics; results equal the solo results
	for _, p := range out.Panics {
		mk("C20/panic/task", map[string]interface{}{"panic": "none"}, map[string]interface{}{"panic": p})
		break
	}
	for _, p := range out.SharedChanged {
		mk("C20/shared-value-changed", map[string]interface{}{"shared values": "unchanged by concurrent evaluations (they are immutable)"}, map[string]interface{}{"changed": p})
		break
	}
	for _, p := range out.Isolation {
		mk("C20/isolation/result", map[string]interface{}{"result": "same as when the task runs alone"}, map[string]interface{}{"mismatch": p})
		break
	}
	s.Freeform += int64(out.FreeformLines)
	s.Sweep += int64(out.SweepLines)
	if out.Ties > 0 {
		s.Infra++
		if len(s.InfraMsgs) < 5 {
			s.InfraMsgs = append(s.InfraMsgs, fmt.Sprintf("replay-unstable: %d canonical map-order ties", out.Ties))
		}
	}
	return viols
}

// Minimise delta-debugs the recorded switch list (the workload tape stays fixed): chunks
// of switches are removed while a fresh process replaying the remaining explicit schedule
// still shows the same violation signature. Forced switches that are removed fall back to
// "first runnable task", so every candidate is a legal schedule.
func (c *c20Check) Minimise(v Viol) Viol {
	b, _ := json.Marshal(v.Derived["schedule"])
	var sw []map[string]uint32
	if json.Unmarshal(b, &sw) != nil || len(sw) == 0 {
		return v
	}
	best := v
	budget := 40
	deadline := time.Now().Add(90 * time.Second) // long runs (property sweeps) get fewer attempts
	holds := func(cand []map[string]uint32) bool {
		if budget <= 0 || time.Now().After(deadline) {
			budget = 0
			return false
		}
		budget--
		probe := v
		probe.Derived = map[string]interface{}{}
		for k, x := range v.Derived {
			probe.Derived[k] = x
		}
		probe.Derived["schedule"] = cand
		st := newC20Stats()
		for _, x := range c.Run(v.Seed, v.Run, nil, st, &probe) {
			if x.Signature == v.Signature {
				x.Tier = v.Tier
				best = x
				return true
			}
		}
		return false
	}
	cur := sw
	for n := 2; len(cur) >= 1 && budget > 0; {
		chunk := (len(cur) + n - 1) / n
		reduced := false
		for i := 0; i < len(cur) && budget > 0; i += chunk {
			end := i + chunk
			if end > len(cur) {
				end = len(cur)
			}
			cand := append(append([]map[string]uint32(nil), cur[:i]...), cur[end:]...)
			if holds(cand) {
				cur = cand
				reduced = true
				break
			}
		}
		if reduced {
			if n > 2 {
				n--
			}
			continue
		}
		if chunk <= 1 {
			break
		}
		n *= 2
		if n > len(cur) {
			n = len(cur)
		}
	}
	best.Derived["schedule_minimised_from"] = len(sw)
	return best
}

func headSwitches(sw []map[string]uint32, n int) []string {
	var out []string
	for i, s := range sw {
		if i >= n {
			break
		}
		out = append(out, fmt.Sprintf("@%d->t%d", s["At"], s["To"]))
	}
	return out
}

func clipStr(s string, n int) string {
	if len(s) > n {
		return s[:n] + "…"
	}
	return s
}

func (c *c20Check) Evidence(st Stats, tier string) (map[string]interface{}, []string) {
	s := st.(*C20Stats)
	cov := map[string]interface{}{
		"evaluations":                 s.Runs,
		"distinct_nontrivial":         len(s.Scheds),
		"rule":                        "one case = one seeded schedule of the real interpreter in a fresh OS process (-race build): start-up (di.InjectBuiltInProps, 19 loader tasks + main), warm interpreter (2..6 concurrent evaluation tasks: symbol-interning programs, free-form histories over a shared pool of values, or lockstep sweeps that read the shared values and built-in prototypes through every property, plainly and with private?: true) or HTTP handlers; distinct_nontrivial = distinct hashes of the complete switch-decision sequence",
		"samples":                     s.Samples,
		"startup_runs":                s.Startup,
		"warm_runs":                   s.Warm,
		"http_handler_runs":           s.HTTP,
		"yield_points_passed":         s.Yields,
		"switches":                    s.Switches,
		"tasks_total":                 s.Tasks,
		"symtab_ops_recorded":         s.SymOps,
		"tsan_reports":                s.TSanReports,
		"vc_races":                    s.VCRaces,
		"histories_checked_porcupine": s.LinChecked,
		"porcupine_unknown":           s.LinUnknown,
		"deadlocks":                   s.Deadlocks,
		"watchdog_timeouts":           s.Timeouts,
		"infra_errors":                s.Infra,
		"determinism_triples_checked": s.DetPairs,
		"probe_switch_landed_after_another_tasks_table_write": s.AfterWrite,
		"freeform_history_lines_run_concurrently":             s.Freeform,
		"property_sweep_reads_run_concurrently":               s.Sweep,
		"yield_site_hits":                                     s.SiteHits,
		"switch_rate_swarm":                                   s.RateHist,
		"race_build":                                          s.RaceBuild,
		"simulated_time":                                      "none (no clock/timers in the system); steps = yield points",
		"fault_kinds":                                         "schedule choice only (goroutine interleaving); no clock, network or disk exists in these paths",
		"real_vs_stub": map[string]string{
			"real": "whole interpreter incl. di.InjectBuiltInProps goroutines, object/hashtable.go lock and tables, evaluator; real goroutines, real sync.RWMutex and channels (operations are performed after the model admits them)",
			"stub": "the choice of which goroutine runs (token passing at AST-inserted yield points); the HTTP transport (requests are served through echo.ServeHTTP with httptest recorders: real router, real toHandler/requestToObj/handler callbacks, no sockets)",
		},
	}
	if len(s.Samples) == 0 {
		cov["samples"] = []interface{}{"(none)"}
	}
	if len(s.InfraMsgs) > 0 {
		cov["infra_msgs"] = s.InfraMsgs
	}
	return cov, []string{
		"hand-offs between tasks are hidden from the race detector (runtime.RaceDisable), so a report means two conflicting accesses unordered by the program's own synchronisation",
		"switches happen only at instrumented points (lock ops, package-level map accesses, symbol-table ops, entry of evaluator.Eval)",
		"every concurrent evaluation runs in its own NewEnclosedEnv(global); tasks may read values of a common outer scope (free-form histories and property sweeps over a shared pool) but never assign shared variables",
	}
}

func init() {
	register("C20", func() Check { return &c20Check{} })
	_ = filepath.Join
}
