package checks

import (
	"encoding/json"
	"fmt"
	"sort"
	"strings"

	"github.com/Syuparn/pangaea/object"

	"verifsim/harness"
	"verifsim/tape"
)

// C13: try/Either captures exactly what the plain chain would have raised.
// Oracle = commutation: the same chain is evaluated plain (program A) and wrapped
// (program B) under the same per-slot fault plan; every accessor of B must report
// A's outcome.

type c13Step struct {
	kind string // lit, litraise, method, op, natural, missing, valueprop
	src  string // chain step source, e.g. ".{|x| S(3); (x + 1)}"
	slot int    // slot id inside the callee (0 = none)
}

type C13Stats struct {
	Programs     int             `json:"programs"`
	Evals        int             `json:"evaluations"`
	Plans        int             `json:"fault_plans"`
	Fired        map[string]int  `json:"faults_fired_by_kind"`
	FailAt       map[string]int  `json:"plain_chain_failed_at_step"`
	StepKinds    map[string]int  `json:"step_kinds"`
	Accessors    map[string]int  `json:"accessor_checks"`
	Skipped      int             `json:"skipped_unjudgeable"`
	Distinct     map[string]bool `json:"-"`
	DistinctKeys []string        `json:"distinct_keys"`
	Samples      []interface{}   `json:"samples"`
}

func newC13Stats() *C13Stats {
	return &C13Stats{Fired: map[string]int{}, FailAt: map[string]int{}, StepKinds: map[string]int{}, Accessors: map[string]int{}, Distinct: map[string]bool{}}
}
func (s *C13Stats) MarshalJSON() ([]byte, error) {
	type plain C13Stats
	s.DistinctKeys = s.DistinctKeys[:0]
	for k := range s.Distinct {
		s.DistinctKeys = append(s.DistinctKeys, k)
	}
	sort.Strings(s.DistinctKeys)
	return json.Marshal((*plain)(s))
}
func (s *C13Stats) Merge(raw json.RawMessage) error {
	o := newC13Stats()
	type plain C13Stats
	if err := json.Unmarshal(raw, (*plain)(o)); err != nil {
		return err
	}
	s.Programs += o.Programs
	s.Evals += o.Evals
	s.Plans += o.Plans
	s.Skipped += o.Skipped
	for k, v := range o.Fired {
		s.Fired[k] += v
	}
	for k, v := range o.FailAt {
		s.FailAt[k] += v
	}
	for k, v := range o.StepKinds {
		s.StepKinds[k] += v
	}
	for k, v := range o.Accessors {
		s.Accessors[k] += v
	}
	for _, k := range o.DistinctKeys {
		s.Distinct[k] = true
	}
	if len(s.Samples) < 3 {
		s.Samples = append(s.Samples, o.Samples...)
	}
	return nil
}

type c13Check struct {
	it     *harness.Interp
	tier   string
	either object.PanObject
}

func (c *c13Check) ID() string      { return "C13" }
func (c *c13Check) Level() string   { return "fault_enumeration" }
func (c *c13Check) Flavour() string { return "plain" }
func (c *c13Check) Runs(tier string) int {
	if tier == "thorough" {
		return 4000000
	}
	return 40000
}
func (c *c13Check) BudgetS(tier string) int {
	if tier == "thorough" {
		return 1200
	}
	return 60
}
func (c *c13Check) NewStats() Stats { return newC13Stats() }
func (c *c13Check) Init(tier string) {
	c.tier = tier
	if c.it == nil {
		c.it = harness.NewInterp()
		if prog, err := harness.Parse("1.try"); err == nil {
			c.either = c.it.Run(prog, nil).Obj
		}
	}
}

// ownProp reports whether an Either value itself has (inherits) a property of that name.
func (c *c13Check) ownProp(name string) bool {
	if c.either == nil {
		return false
	}
	_, ok := object.FindPropAlongProtos(c.either, object.GetSymHash(name))
	return ok
}

var c13Kinds = []string{"Err", "TypeErr", "ValueErr", "ZeroDivisionErr", "NameErr", "NoPropErr", "AssertionErr", "NotImplementedErr", "SyntaxErr", "FileNotFoundErr", "StopIterErr"}

// genChain draws a receiver and k steps. objMode: receiver is a user object whose
// methods return self (so the chain stays on the object) or an int at the end.
func c13Gen(t *tape.Tape, ownProp func(string) bool) (prelude, recv string, steps []c13Step, nslots int) {
	k := 1 + t.Intn(5)
	id := 1
	next := func() int { id++; return id - 1 }
	objMode := t.Chance(1, 3)
	if objMode {
		// methods: ma returns self, mb returns self (with kwarg), mv is a plain value, mi returns an int
		s1, s2, s3 := next(), next(), next()
		// the methods' results depend on every argument they receive, so a dropped or
		// reordered argument shows in the value
		prelude = fmt.Sprintf("o := {_pm: m{|a| S(%d); .bear({lp: a})}, ma: m{|a| S(%d); .bear({la: a})}, mb: m{|a, k: 0, j: 5, _p: 2| S(%d); .bear({lb: [a, k, j, _p, \\_]})}, mi: m{S(%d); 7}, mf: m{|n| S(%d); {|x| x + n}}, mc: m{|f| S(%d); .bear({lc: f(2)})}, v: 3}\n", s1, s1, s2, s3, s3, s1)
		recv = "o"
		for i := 0; i < k; i++ {
			last := i == k-1
			switch t.Pick(3, 3, 2, 1, 1, 1) {
			case 0:
				if t.Chance(1, 5) {
					// arguments through `*[...]`, a function as argument, a trailing block
					if t.Chance(1, 4) {
						steps = append(steps, c13Step{"method-kw", fmt.Sprintf(".mb(*[%d], **{k: %d})", t.Intn(9), t.Intn(9)), s2})
						break
					}
					steps = append(steps, c13Step{"method", []string{
						fmt.Sprintf(".ma(*[%d])", t.Intn(9)),
						fmt.Sprintf(".mc {|x| x + %d}", t.Intn(9)),
						fmt.Sprintf(".mc({|x| x * %d})", 1+t.Intn(5)),
					}[t.Intn(3)], s1})
					break
				}
				if t.Chance(1, 4) {
					// a method with a private name is a step like any other
					steps = append(steps, c13Step{"method", fmt.Sprintf("._pm(%d)", t.Intn(9)), s1})
					break
				}
				steps = append(steps, c13Step{"method", fmt.Sprintf(".ma(%d)", t.Intn(9)), s1})
			case 1:
				switch t.Intn(5) {
				case 3:
					// a keyword whose name starts with `_` (a private name) is a keyword like any other
					steps = append(steps, c13Step{"method-kw", fmt.Sprintf(".mb(%d, _p: %d, k: %d)", t.Intn(9), t.Intn(9), t.Intn(9)), s2})
				case 4:
					steps = append(steps, c13Step{"method-kw", fmt.Sprintf(".mb(%d, **{_p: %d, j: %d})", t.Intn(9), t.Intn(9), t.Intn(9)), s2})
				case 0:
					steps = append(steps, c13Step{"method-kw", fmt.Sprintf(".mb(%d, k: %d)", t.Intn(9), t.Intn(9)), s2})
				case 1:
					steps = append(steps, c13Step{"method-kw", fmt.Sprintf(".mb(j: %d, %d, k: %d)", t.Intn(9), t.Intn(9), t.Intn(9)), s2})
				default:
					steps = append(steps, c13Step{"method-kw", fmt.Sprintf(".mb(%d, **{k: %d, z: 1})", t.Intn(9), t.Intn(9)), s2})
				}
			case 2:
				sl := next()
				steps = append(steps, c13Step{"lit", fmt.Sprintf(".{|x| S(%d); x}", sl), sl})
			case 3:
				if last && t.Chance(1, 2) {
					// a step whose result is itself a function: a value like any other, held and
					// handed out by every accessor, never called
					steps = append(steps, c13Step{"method-func", fmt.Sprintf(".mf(%d)", t.Intn(9)), s3})
				} else if last {
					steps = append(steps, c13Step{"method-int", ".mi", s3})
				} else {
					steps = append(steps, c13Step{"method", ".ma(1)", s1})
				}
			case 4:
				if last {
					steps = append(steps, c13Step{"valueprop", ".v", 0})
				} else {
					steps = append(steps, c13Step{"method", ".ma(2)", s1})
				}
			default:
				steps = append(steps, c13Step{"missing", ".nosuchprop", 0})
			}
		}
		return prelude, recv, steps, id - 1
	}
	if t.Chance(1, 3) {
		// built-in properties of strings/arrays, some with keyword arguments; the plain
		// chain is the reference, so whatever they do (incl. failing) must commute
		recv = []string{"\"a,b;c\"", "\"Hello World\"", "\"abcdefgh\""}[t.Intn(3)]
		builtins := []string{".uc", ".lc", ".len", ".split(sep: \",\")", ".split(sep: \";\")", ".split(sep: 1)", ".truncate(5, end: \"~\")", ".truncate(3)",
			".rev", ".S", ".repr", ".sum", ".join(\"-\")", ".first", ".last", ".+(\"z\")", ".*(2)", ".at(1)", ".keys", ".capital", ".I", ".sub(\"b\", \"B\")", ".has?(\"a\")", ".sort", ".max", ".S(base: 2)", "._incBy(1)", "._incBy(2)"}
		for i := 0; i < k; i++ {
			if t.Chance(1, 4) {
				sl := next()
				steps = append(steps, c13Step{"lit", fmt.Sprintf(".{|x| S(%d); x}", sl), sl})
				continue
			}
			b := builtins[t.Intn(len(builtins))]
			kind := "builtin"
			if strings.Contains(b, ": ") {
				kind = "builtin-kw"
			}
			// a name the Either object itself inherits (from Obj/BaseObj/Iterable) is not a
			// proxied step but the Either's own property: classified separately
			name := strings.TrimPrefix(b, ".")
			if i := strings.IndexAny(name, "("); i >= 0 {
				name = name[:i]
			}
			if ownProp != nil && ownProp(name) {
				kind = "ownprop"
			}
			steps = append(steps, c13Step{kind, b, 0})
		}
		return "", recv, steps, id - 1
	}
	recv = fmt.Sprint(1 + t.Intn(9))
	for i := 0; i < k; i++ {
		wNested := 0
		if i == k-1 {
			wNested = 1 // only as the last step: steps applied to an Either are Either sugar, not plain calls
		}
		switch t.Pick(4, 3, 1, 1, 1, 1, 1, 1, wNested) {
		case 8:
			// a step whose result is itself an Either (nested try): it is a value like any other
			sl := next()
			steps = append(steps, c13Step{"lit-nested-try", fmt.Sprintf(".{|x| S(%d); (x + 1).try}", sl), sl})
		case 7:
			// a step that succeeds with a nil / falsy value
			sl := next()
			v := []string{"nil", "0", "false", "\"\"", "[]"}[t.Intn(5)]
			steps = append(steps, c13Step{"lit-falsy", fmt.Sprintf(".{|x| S(%d); %s}", sl, v), sl})
		case 0:
			sl := next()
			steps = append(steps, c13Step{"lit", fmt.Sprintf(".{|x| S(%d); (x + %d)}", sl, t.Intn(5)), sl})
		case 1:
			op := []string{"+", "-", "*"}[t.Intn(3)]
			steps = append(steps, c13Step{"op", fmt.Sprintf(".%s(%d)", op, 1+t.Intn(5)), 0})
		case 2:
			steps = append(steps, c13Step{"natural-zerodiv", ".//(0)", 0})
		case 3:
			steps = append(steps, c13Step{"natural-type", `.+("a")`, 0})
		case 4:
			kind := []string{"ValueErr", "TypeErr", "Err", "AssertionErr"}[t.Intn(4)]
			sl := next()
			steps = append(steps, c13Step{"litraise", fmt.Sprintf(`.{|x| S(%d); raise %s.new("m%d"); x}`, sl, kind, t.Intn(100)), sl})
		case 5:
			steps = append(steps, c13Step{"missing", ".nosuchprop", 0})
		default:
			sl := next()
			if i == k-1 && t.Chance(1, 3) {
				steps = append(steps, c13Step{"lit-func-value", fmt.Sprintf(".{|x| S(%d); {|y| y + x}}", sl), sl})
				break
			}
			if i == k-1 && t.Chance(1, 4) {
				// a step whose result answers questions about itself in its own way (its own `nil?`,
				// `B`, `S`; not `==`: `val?` is documented as `.val != nil`, and `!=` asks the value) or does not descend from Obj at all: the accessors report the value
				// that is held, they do not interview it
				ov := []string{"{nil?: true, a: 1}", "BaseObj.bear({a: 1})", "{B: false, a: 2}", "{S: \"text\", repr: \"r\", a: 3}"}[t.Intn(4)]
				steps = append(steps, c13Step{"lit-odd-object", fmt.Sprintf(".{|x| S(%d); %s}", sl, ov), sl})
				break
			}
			if i == k-1 && t.Chance(1, 3) {
				// a step that SUCCEEDS and whose result is an error taken out of another chain as a
				// value (`.err`, `.A[1]`): a value like any other, not a failure of this step
				ev := []string{"10.try./(0).err", "\"a\".try.{|s| raise ValueErr.new(\"inner\")}.A[1]", "5.try.nosuchprop.err"}[t.Intn(3)]
				steps = append(steps, c13Step{"lit-error-value", fmt.Sprintf(".{|x| S(%d); %s}", sl, ev), sl})
				break
			}
			steps = append(steps, c13Step{"lit-nested", fmt.Sprintf(".{|x| {|y| S(%d); (y * 2)}(x)}", sl), sl})
		}
	}
	return "", recv, steps, id - 1
}

type c13Outcome struct {
	raised    bool
	kind, msg string
	val       string // Inspect of the value
	nilVal    bool
	trace     string
	panic     string
}

func outcomeOf(r harness.Result) c13Outcome {
	o := c13Outcome{trace: idsString(harness.TraceIDs(r.Trace)), panic: r.Panic}
	if r.Err != nil {
		o.raised, o.kind, o.msg = true, r.Err.Kind(), r.Err.Msg
	} else if r.Obj != nil {
		o.val = r.Obj.Inspect()
		o.nilVal = r.Obj == object.BuiltInNil
	}
	return o
}

func getVar(env *object.Env, name string) object.PanObject {
	v, _ := env.Get(object.GetSymHash(name))
	return v
}

func errOf(o object.PanObject) (kind, msg string, ok bool) {
	switch e := o.(type) {
	case *object.PanErrWrapper:
		return e.Kind(), e.Msg, true
	case *object.PanErr:
		return e.Kind(), e.Msg, true
	}
	return "", "", false
}

func (c *c13Check) Run(seed, run uint64, rec []uint32, st Stats, only *Viol) []Viol {
	s := st.(*C13Stats)
	var t *tape.Tape
	if rec != nil {
		t = tape.Replay(rec)
	} else {
		t = tape.New(seed^hashID("C13"), run)
	}
	prelude, recv, steps, nslots := c13Gen(t, c.ownProp)
	chain := ""
	kinds := []string{}
	for _, sp := range steps {
		chain += sp.src
		kinds = append(kinds, sp.kind)
		s.StepKinds[sp.kind]++
	}
	handlerSlot := nslots + 1
	progA := prelude + recv + chain + "\n"
	progB := prelude + "e := " + recv + ".try" + chain + "\n" +
		"rA := e.A\nrVal := e.val\nrErr := e.err\nrValQ := e.val?\nrErrQ := e.err?\nrOr := e.or(777)\nrEnd := e.end\n" +
		fmt.Sprintf("rCatchAny := e.catch(Err){|x| S(%d); 4242}.A\n", handlerSlot) +
		fmt.Sprintf("rCatchT := e.catch(TypeErr){|x| S(%d); 4243}.A\nrCatchV := e.catch(ValueErr){|x| S(%d); {try: 5, a: 1}}.A\nrCatchZ := e.catch(ZeroDivisionErr){|x| S(%d); BaseObj.bear({a: 2})}.A\n", handlerSlot+1, handlerSlot+2, handlerSlot+3) +
		"rIgnT := e.ignore(TypeErr).A\nrIgnN := e.ignore(NoPropErr).A\n" +
		"rIgnTQ := [e.ignore(TypeErr).err?, e.ignore(TypeErr).val?]\nrCatchNilQ := e.catch(ValueErr){|x| nil}.err?\n" +
		"e.abandon\n"
	s.Programs++
	astA, errA := harness.Parse(progA)
	astB, errB := harness.Parse(progB)
	if errA != nil || errB != nil {
		s.Skipped++
		return nil
	}
	s.Distinct[strings.Join(kinds, ",")+"|"+recv] = true
	if len(s.Samples) < 2 {
		s.Samples = append(s.Samples, map[string]interface{}{"plain": progA, "wrapped": progB})
	}
	type plan struct {
		slot int
		kind string
		nilv bool
	}
	plans := []plan{{0, "", false}}
	var stepSlots []int
	seen := map[int]bool{}
	for _, sp := range steps {
		if sp.slot != 0 && !seen[sp.slot] {
			seen[sp.slot] = true
			stepSlots = append(stepSlots, sp.slot)
		}
	}
	for _, sl := range stepSlots {
		ks := c13Kinds
		if c.tier != "thorough" && only == nil {
			ks = []string{c13Kinds[(int(run)+sl)%len(c13Kinds)], c13Kinds[(int(run)*3+sl+5)%len(c13Kinds)]}
		}
		for _, k := range ks {
			plans = append(plans, plan{sl, k, false})
		}
	}
	if only != nil {
		if p, ok := only.Derived["plan"].(map[string]interface{}); ok {
			sl, _ := p["slot"].(float64)
			k, _ := p["raise"].(string)
			plans = []plan{{int(sl), k, false}}
		}
	}
	var viols []Viol
	seenSig := map[string]bool{}
	for _, pl := range plans {
		byID := map[int]harness.Ret{}
		injMsg := ""
		if pl.slot != 0 {
			injMsg = fmt.Sprintf("inj%d", pl.slot)
			byID[pl.slot] = harness.Ret{Kind: "raise", S: pl.kind, Msg: injMsg}
			s.Fired[pl.kind]++
		}
		s.Plans++
		rA := c.it.Run(astA, &harness.Callee{PlanByID: byID})
		rB := c.it.Run(astB, &harness.Callee{PlanByID: byID})
		s.Evals += 2
		a := outcomeOf(rA)
		// which step failed (for the signature)
		failKind := "nofail"
		if a.raised {
			n := len(rA.Trace)
			_ = n
			failKind = "fail"
			// attribute to the step whose slot raised, or to the first natural failing step
			if pl.slot != 0 && a.msg == injMsg {
				for _, sp := range steps {
					if sp.slot == pl.slot {
						failKind = sp.kind
						break
					}
				}
			} else {
				for _, sp := range steps {
					if strings.HasPrefix(sp.kind, "natural") || sp.kind == "missing" || sp.kind == "litraise" {
						failKind = sp.kind
						break
					}
				}
			}
		}
		s.FailAt[failKind]++
		reported := false
		report := func(acc, what string, exp, act interface{}) {
			if reported {
				return // one violation per plan: the first accessor that disagrees
			}
			reported = true
			// responsible step: the last step of the shortest chain prefix for which
			// `.A` or the callee trace of the wrapped chain disagrees with the plain one
			resp := "accessor"
			for j := 1; j <= len(steps); j++ {
				if ok, symptom := c.commutes(prelude, recv, steps[:j], byID); !ok {
					resp = steps[j-1].kind
					if symptom != "" && resp != "ownprop" {
						resp = symptom
					}
					break
				}
			}
			sig := fmt.Sprintf("C13/%s/%s/%s", resp, failKind, acc)
			if seenSig[sig] {
				return
			}
			seenSig[sig] = true
			d := map[string]interface{}{"plain_program": progA, "wrapped_program": progB, "responsible_step": resp}
			if pl.slot != 0 {
				d["plan"] = map[string]interface{}{"slot": pl.slot, "raise": pl.kind}
			}
			viols = append(viols, Viol{Prop: "C13", Run: run, Seed: seed, Tape: append([]uint32(nil), t.Rec...), Engine: "callee",
				Signature: sig, Derived: d,
				Expected: map[string]interface{}{"plain_outcome": fmt.Sprintf("%+v", a), acc: exp},
				Actual:   map[string]interface{}{acc: act, "wrapped_trace": idsString(harness.TraceIDs(rB.Trace))}})
		}
		if rA.Panic != "" || rB.Panic != "" {
			report("panic", "host-panic", "no panic", rA.Panic+" / "+rB.Panic)
			continue
		}
		get := func(name string) object.PanObject { return getVar(rB.Scope, name) }
		insp := func(o object.PanObject) string {
			if o == nil {
				return "<unset>"
			}
			return o.Inspect()
		}
		chk := func(acc string, ok bool, exp, act interface{}) {
			s.Accessors[acc]++
			if !ok {
				report(acc, "mismatch", exp, act)
			}
		}
		// skip-after-failure and exactly-once: the wrapped chain invokes exactly the
		// callees the plain chain invoked (accessor handler slot aside)
		bTrace := harness.TraceIDs(rB.Trace)
		var bChain []int
		typedHandler := map[string]int{"TypeErr": handlerSlot + 1, "ValueErr": handlerSlot + 2, "ZeroDivisionErr": handlerSlot + 3}
		handlerRuns := map[int]int{}
		for _, x := range bTrace {
			if x < handlerSlot || x > handlerSlot+3 {
				bChain = append(bChain, x)
			} else {
				handlerRuns[x]++
			}
		}
		chk("trace", idsString(bChain) == a.trace, a.trace, idsString(bChain))
		// a typed catch handler runs once when the captured error has exactly that type, else never
		for kind, slot := range typedHandler {
			wantRuns := 0
			if a.raised && a.kind == kind {
				wantRuns = 1
			}
			chk("catch-handler-"+kind, handlerRuns[slot] == wantRuns, fmt.Sprintf("handler of catch(%s) invoked %d times", kind, wantRuns), fmt.Sprintf("invoked %d times", handlerRuns[slot]))
		}
		if get("e") == nil {
			report("try", "not-captured", "an Either", fmt.Sprintf("program stopped: %+v", outcomeOf(rB)))
			continue
		}
		pair := func(o object.PanObject) (object.PanObject, object.PanObject, bool) {
			arr, ok := o.(*object.PanArr)
			if !ok || len(arr.Elems) != 2 {
				return nil, nil, false
			}
			return arr.Elems[0], arr.Elems[1], true
		}
		isNil := func(o object.PanObject) bool { return o == object.BuiltInNil }
		b := outcomeOf(rB) // outcome of `e.abandon`, the last statement
		if !a.raised {
			for _, nm := range []string{"rA", "rEnd", "rCatchAny", "rCatchT", "rCatchV", "rCatchZ", "rIgnT", "rIgnN"} {
				v, e, ok := pair(get(nm))
				chk(nm, ok && insp(v) == a.val && isNil(e), "["+a.val+", nil]", insp(get(nm)))
			}
			chk("val", insp(get("rVal")) == a.val, a.val, insp(get("rVal")))
			chk("err", isNil(get("rErr")), "nil", insp(get("rErr")))
			chk("err?", get("rErrQ") == object.BuiltInFalse, "false", insp(get("rErrQ")))
			if !a.nilVal {
				chk("val?", get("rValQ") == object.BuiltInTrue, "true", insp(get("rValQ")))
				chk("or", insp(get("rOr")) == a.val, a.val, insp(get("rOr")))
			}
			chk("abandon", !b.raised && b.val == a.val, a.val, fmt.Sprintf("%+v", b))
			if arr, ok := get("rIgnTQ").(*object.PanArr); ok && len(arr.Elems) == 2 {
				chk("ignore.err?", arr.Elems[0] == object.BuiltInFalse, "false", insp(arr.Elems[0]))
			}
			chk("catch.err?", get("rCatchNilQ") == object.BuiltInFalse, "false", insp(get("rCatchNilQ")))
			hs := 0
			for _, x := range bTrace {
				if x == handlerSlot {
					hs++
				}
			}
			chk("catch-handler", hs == 0, "handler not invoked", fmt.Sprintf("invoked %d times", hs))
			continue
		}
		want := fmt.Sprintf("[nil, [%s: %s]]", a.kind, a.msg)
		sameErr := func(o object.PanObject) bool {
			k, m, ok := errOf(o)
			return ok && k == a.kind && m == a.msg
		}
		for _, nm := range []string{"rA", "rEnd"} {
			v, e, ok := pair(get(nm))
			chk(nm, ok && isNil(v) && sameErr(e), want, insp(get(nm)))
		}
		chk("val", isNil(get("rVal")), "nil", insp(get("rVal")))
		chk("err", sameErr(get("rErr")), a.kind+": "+a.msg, insp(get("rErr")))
		chk("err?", get("rErrQ") == object.BuiltInTrue, "true", insp(get("rErrQ")))
		chk("val?", get("rValQ") == object.BuiltInFalse, "false", insp(get("rValQ")))
		chk("or", insp(get("rOr")) == "777", "777", insp(get("rOr")))
		chk("abandon", b.raised && b.kind == a.kind && b.msg == a.msg, a.kind+": "+a.msg, fmt.Sprintf("%+v", b))
		// catch(kind): exact kind matches convert; other kinds leave the error
		for nm, k := range map[string]string{"rCatchT": "TypeErr", "rCatchV": "ValueErr", "rCatchZ": "ZeroDivisionErr"} {
			v, e, ok := pair(get(nm))
			if k == a.kind {
				// whatever the handler returns is the new value, also when it is an object with a
				// `try` of its own or one that does not descend from Obj
				wantV := map[string]string{"rCatchT": "4243", "rCatchV": `{"a": 1, "try": 5}`, "rCatchZ": `{"a": 2}`}[nm]
				chk(nm, ok && isNil(e) && insp(v) == wantV, "["+wantV+", nil]", insp(get(nm)))
			} else {
				chk(nm, ok && isNil(v) && sameErr(e), want, insp(get(nm)))
			}
		}
		if arr, ok := get("rIgnTQ").(*object.PanArr); ok && len(arr.Elems) == 2 {
			// an ignored error leaves a value-less success: no error any more
			wantErrQ := object.PanObject(object.BuiltInTrue)
			if a.kind == "TypeErr" {
				wantErrQ = object.BuiltInFalse
			}
			chk("ignore.err?", arr.Elems[0] == wantErrQ, insp(wantErrQ), insp(arr.Elems[0]))
		}
		{
			wantErrQ := object.PanObject(object.BuiltInTrue)
			if a.kind == "ValueErr" {
				wantErrQ = object.BuiltInFalse
			}
			chk("catch.err?", get("rCatchNilQ") == wantErrQ, insp(wantErrQ), insp(get("rCatchNilQ")))
		}
		for nm, k := range map[string]string{"rIgnT": "TypeErr", "rIgnN": "NoPropErr"} {
			v, e, ok := pair(get(nm))
			if k == a.kind {
				chk(nm, ok && isNil(e) && isNil(v), "[nil, nil]", insp(get(nm)))
			} else {
				chk(nm, ok && isNil(v) && sameErr(e), want, insp(get(nm)))
			}
		}
	}
	return viols
}

// commutes evaluates a chain plain and wrapped and compares `.A` and the callee trace.
// symptom names the recorded Wrappable#_missing finding when the wrapped chain captured
// "property `call` is not defined." because the looked-up property was absent (plain:
// NoPropErr naming the property -> "missing") or not callable (plain: its value -> "valueprop").
func (c *c13Check) commutes(prelude, recv string, steps []c13Step, byID map[int]harness.Ret) (bool, string) {
	chain := ""
	for _, sp := range steps {
		chain += sp.src
	}
	astA, errA := harness.Parse(prelude + recv + chain + "\n")
	astB, errB := harness.Parse(prelude + "e := " + recv + ".try" + chain + "\nrA := e.A\n")
	if errA != nil || errB != nil {
		return true, ""
	}
	rA := c.it.Run(astA, &harness.Callee{PlanByID: byID})
	rB := c.it.Run(astB, &harness.Callee{PlanByID: byID})
	a := outcomeOf(rA)
	if idsString(harness.TraceIDs(rB.Trace)) != a.trace || rB.Err != nil {
		return false, ""
	}
	arr, ok := getVar(rB.Scope, "rA").(*object.PanArr)
	if !ok || len(arr.Elems) != 2 {
		return false, ""
	}
	symptom := ""
	if k, m, isErr := errOf(arr.Elems[1]); isErr && k == "NoPropErr" && m == "property `call` is not defined." {
		if a.raised && a.kind == "NoPropErr" && strings.HasPrefix(a.msg, "property `") && a.msg != m {
			symptom = "missing"
		} else if !a.raised {
			symptom = "valueprop"
		}
	}
	if a.raised {
		k, m, ok := errOf(arr.Elems[1])
		return ok && k == a.kind && m == a.msg && arr.Elems[0] == object.BuiltInNil, symptom
	}
	return arr.Elems[0].Inspect() == a.val && arr.Elems[1] == object.BuiltInNil, symptom
}

func (c *c13Check) Evidence(st Stats, tier string) (map[string]interface{}, []string) {
	s := st.(*C13Stats)
	fired := 0
	for _, v := range s.Fired {
		fired += v
	}
	cov := map[string]interface{}{
		"evaluations":                     s.Evals,
		"distinct_nontrivial":             len(s.Distinct),
		"rule":                            "one case = (receiver, chain of k<=5 steps {literal call, nested call, user method with positional/keyword args, operator call, natural ZeroDivision/Type/NoProp failure, explicit raise}, fault plan {none | slot s raises kind K}); the plain chain and the try-wrapped chain are evaluated under the same plan and all accessors are compared with the plain outcome; distinct_nontrivial = distinct (step-kind sequence, receiver)",
		"samples":                         s.Samples,
		"programs":                        s.Programs,
		"fault_plans":                     s.Plans,
		"faults_fired_total":              fired,
		"faults_fired_by_kind":            s.Fired,
		"plain_chain_failed_at_step_kind": s.FailAt,
		"step_kinds":                      s.StepKinds,
		"accessor_checks":                 s.Accessors,
		"skipped_unparseable":             s.Skipped,
		"simulated_time":                  "none (no clock); steps = callee invocations",
		"real_vs_stub":                    realVsStub,
	}
	if len(s.Samples) == 0 {
		cov["samples"] = []interface{}{"(none)"}
	}
	return cov, []string{
		"commutation oracle: whatever the plain chain does under a plan is the reference for the wrapped chain under the same plan",
		"`val?` and `or` are not judged when the plain value is nil (the statement does not say how a nil value is reported)",
		"step arguments are slot-free constants (arguments of skipped steps are evaluated by the caller)",
		"catch(Err) with a handler is only checked not to run its handler on success (whether catch matches descendants of the given type is not stated)",
	}
}

func init() { register("C13", func() Check { return &c13Check{} }) }
