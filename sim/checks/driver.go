package checks

import (
	"bufio"
	"context"
	"encoding/json"
	"flag"
	"fmt"
	"os"
	"os/exec"
	"path/filepath"
	"regexp"
	"runtime"
	"sort"
	"strconv"
	"strings"
	"sync"
	"sync/atomic"
	"time"

	"verifsim/tape"
)

// Stats is a mergeable, JSON-serialisable counter set.
type Stats interface {
	Merge(raw json.RawMessage) error
}

// Check is one property's machinery.
type Check interface {
	ID() string
	Level() string   // exploration | fault_enumeration
	Flavour() string // plain | seam | seamrace
	Runs(tier string) int
	BudgetS(tier string) int // wall-clock cap per worker batch, seconds
	NewStats() Stats
	Init(tier string)
	// Run performs run number `run`. If rec != nil the tape is replayed from rec.
	// only != nil restricts the run to the case described by that violation (replay).
	Run(seed, run uint64, rec []uint32, st Stats, only *Viol) []Viol
	Evidence(st Stats, tier string) (coverage map[string]interface{}, assumptions []string)
}

var registry = map[string]func() Check{}

func register(id string, f func() Check) { registry[id] = f }

type known struct {
	Property  string `json:"property"`
	Signature string `json:"signature"`
	Status    string `json:"status"` // known | fixed
	Commit    string `json:"commit,omitempty"`
	What      string `json:"what"`
}

func loadKnown(path string) ([]known, error) {
	b, err := os.ReadFile(path)
	if err != nil {
		if os.IsNotExist(err) {
			return nil, nil
		}
		return nil, err
	}
	var f struct {
		Findings []known `json:"findings"`
	}
	if err := json.Unmarshal(b, &f); err != nil {
		return nil, err
	}
	return f.Findings, nil
}

func matchKnown(ks []known, prop, sig string) *known {
	for i := range ks {
		k := &ks[i]
		if k.Status != "known" || k.Property != prop {
			continue
		}
		if k.Signature == sig {
			return k
		}
		// a known-finding signature is a regular expression over the violation signature
		if re, err := regexp.Compile("^(?:" + k.Signature + ")$"); err == nil && re.MatchString(sig) {
			return k
		}
	}
	return nil
}

func seedFromEnv() uint64 {
	if s := os.Getenv("VERIF_SEED"); s != "" {
		if v, err := strconv.ParseUint(s, 10, 64); err == nil {
			return v
		}
		if v, err := strconv.ParseInt(s, 10, 64); err == nil {
			return uint64(v)
		}
	}
	return 1
}

// runHangLimit is how long one run may take before the worker gives up (runs take
// milliseconds; the slowest, C20's race-detector children, have their own 2-minute watchdog).
const runHangLimit = 6 * time.Minute

type workLine struct {
	Type  string          `json:"type"` // viol | stats | log
	Viol  *Viol           `json:"viol,omitempty"`
	Stats json.RawMessage `json:"stats,omitempty"`
	Runs  int             `json:"runs,omitempty"`
	Msg   string          `json:"msg,omitempty"`
}

// work runs a shard of run indices in this process and prints JSON lines.
func work(args []string) int {
	fs := flag.NewFlagSet("work", flag.ExitOnError)
	prop := fs.String("prop", "", "")
	tier := fs.String("tier", "quick", "")
	seed := fs.Uint64("seed", 1, "")
	shard := fs.Int("shard", 0, "")
	nshard := fs.Int("nshard", 1, "")
	fs.Parse(args)
	mk, ok := registry[*prop]
	if !ok {
		fmt.Fprintln(os.Stderr, "unknown property", *prop)
		return 2
	}
	c := mk()
	c.Init(*tier)
	st := c.NewStats()
	out := bufio.NewWriter(os.Stdout)
	enc := json.NewEncoder(out)
	deadline := time.Now().Add(time.Duration(c.BudgetS(*tier)) * time.Second)
	n := c.Runs(*tier)
	done := 0
	// watchdog: evaluations through the harness are bounded by fuel; anything else that
	// stops making progress (a front-end driven directly, the host blocking) ends the
	// worker, which the driver reports as inconclusive (exit 2), never as a verdict
	var curRun, curStart atomic.Int64
	curRun.Store(-1)
	go func() {
		for {
			time.Sleep(5 * time.Second)
			if r := curRun.Load(); r >= 0 && time.Since(time.Unix(0, curStart.Load())) > runHangLimit {
				fmt.Fprintf(os.Stderr, "INFRA: property %s seed %d run %d made no progress for %v\n", *prop, *seed, r, runHangLimit)
				os.Exit(3)
			}
		}
	}()
	for run := *shard; run < n; run += *nshard {
		if time.Now().After(deadline) {
			break
		}
		curStart.Store(time.Now().UnixNano())
		curRun.Store(int64(run))
		// announce the run (unbuffered): if the interpreter takes the whole process down
		// - a fatal error is not a panic - the driver knows which run it was
		out.Flush()
		fmt.Fprintf(os.Stdout, "{\"type\":\"start\",\"runs\":%d}\n", run)
		vs := c.Run(*seed, uint64(run), nil, st, nil)
		curRun.Store(-1)
		done++
		for i := range vs {
			vs[i].Tier = *tier
			enc.Encode(workLine{Type: "viol", Viol: &vs[i]})
		}
		if len(vs) > 0 {
			out.Flush()
		}
	}
	raw, _ := json.Marshal(st)
	enc.Encode(workLine{Type: "stats", Stats: raw, Runs: done})
	out.Flush()
	return 0
}

// drive fans runs out to worker processes, triages violations, writes evidence.
func drive(args []string) int {
	fs := flag.NewFlagSet("drive", flag.ExitOnError)
	prop := fs.String("prop", "", "")
	tier := fs.String("tier", "quick", "")
	verif := fs.String("verif", "/verif", "")
	workers := fs.Int("workers", 0, "")
	fs.Parse(args)
	start := time.Now()
	seed := seedFromEnv()
	mk, ok := registry[*prop]
	if !ok {
		fmt.Fprintln(os.Stderr, "unknown property", *prop)
		return 2
	}
	c := mk()
	nw := *workers
	if nw <= 0 {
		nw = runtime.NumCPU()
	}
	if n := c.Runs(*tier); n < nw {
		nw = n
	}
	fmt.Printf("VERIF_SEED=%d property=%s tier=%s workers=%d runs<=%d\n", seed, *prop, *tier, nw, c.Runs(*tier))
	self, _ := os.Executable()
	total := c.NewStats()
	var mu sync.Mutex
	var viols []Viol
	runsDone := 0
	infra := false
	crashed := 0
	sigCount := map[string]int{}
	var wg sync.WaitGroup
	for w := 0; w < nw; w++ {
		wg.Add(1)
		go func(w int) {
			defer wg.Done()
			cmd := exec.Command(self, "work", "-prop", *prop, "-tier", *tier, "-seed", fmt.Sprint(seed), "-shard", fmt.Sprint(w), "-nshard", fmt.Sprint(nw))
			cmd.Stderr = os.Stderr
			cmd.Env = append(os.Environ(), "GOMAXPROCS=2")
			stdout, err := cmd.StdoutPipe()
			if err != nil || cmd.Start() != nil {
				mu.Lock()
				infra = true
				mu.Unlock()
				return
			}
			sc := bufio.NewScanner(stdout)
			sc.Buffer(make([]byte, 1<<20), 1<<28)
			gotStats := false
			lastStart := -1
			for sc.Scan() {
				var l workLine
				if json.Unmarshal(sc.Bytes(), &l) != nil {
					continue
				}
				mu.Lock()
				switch l.Type {
				case "start":
					lastStart = l.Runs
				case "viol":
					// (a broken tree can fail in every run, and a recording may be megabytes:
					// three recordings per signature are kept, the rest are only counted)
					sigCount[l.Viol.Signature]++
					if sigCount[l.Viol.Signature] <= 3 {
						viols = append(viols, *l.Viol)
					}
				case "stats":
					gotStats = true
					runsDone += l.Runs
					if err := total.Merge(l.Stats); err != nil {
						infra = true
					}
				}
				mu.Unlock()
			}
			if err := cmd.Wait(); err != nil || !gotStats {
				// did the interpreter take the process down (stack overflow, concurrent map
				// writes, ...)? then the run in progress does it again in a process of its own
				watchdog := false
				if ee, ok := err.(*exec.ExitError); ok && ee.ExitCode() == 3 {
					watchdog = true // the worker's own watchdog: slow or stuck, not dead
				}
				if !watchdog && lastStart >= 0 && crashesAlone(self, *prop, *tier, seed, lastStart) {
					mu.Lock()
					viols = append(viols, crashViol(*prop, *tier, seed, lastStart))
					crashed++
					mu.Unlock()
					return
				}
				fmt.Fprintf(os.Stderr, "INFRA: worker %d failed: %v\n", w, err)
				mu.Lock()
				infra = true
				mu.Unlock()
			}
		}(w)
	}
	wg.Wait()
	if infra {
		fmt.Println("INFRA: worker failure; result is inconclusive")
		return 2
	}
	infraCount := 0
	if ic, ok := total.(interface{ InfraCount() (int, []string) }); ok {
		n, msgs := ic.InfraCount()
		infraCount = n
		for _, m := range msgs {
			fmt.Println("INFRA:", m)
		}
	}

	ks, err := loadKnown(filepath.Join(*verif, "known_findings.json"))
	if err != nil {
		fmt.Println("INFRA: cannot read known_findings.json:", err)
		return 2
	}
	// group by signature, smallest tape first
	bySig := map[string][]Viol{}
	for _, v := range viols {
		bySig[v.Signature] = append(bySig[v.Signature], v)
	}
	sigs := make([]string, 0, len(bySig))
	for s := range bySig {
		sigs = append(sigs, s)
	}
	sort.Strings(sigs)
	exit := 0
	newViol := 0
	c.Init(*tier)
	os.MkdirAll(filepath.Join(*verif, "replays"), 0o755)
	knownSeen := map[string]bool{}
	// shortest signatures first: a minimised finding explains every longer raw
	// signature whose role path contains the minimised one
	sort.SliceStable(sigs, func(i, j int) bool { return len(sigs[i]) < len(sigs[j]) })
	var explained []string
	triageDeadline := time.Now().Add(time.Duration(c.BudgetS(*tier)) * time.Second)
	for _, sig := range sigs {
		if isExplained(explained, sig) {
			continue
		}
		if k := matchKnown(ks, bySig[sig][0].Prop, sig); k == nil && (newViol >= 8 || time.Now().After(triageDeadline)) {
			// no time left to minimise and re-verify: the raw recording is the replay file
			fmt.Printf("additional unminimised violation signature: %s\n", sig)
			if newViol < 40 {
				raw := bySig[sig][0]
				path := filepath.Join(*verif, "replays", fmt.Sprintf("%s-%d-raw%d.json", raw.Prop, seed, newViol))
				b, _ := json.MarshalIndent(raw, "", "  ")
				os.WriteFile(path, b, 0o644)
				fmt.Printf("VIOLATION property=%s replay=%s\n", raw.Prop, path)
			}
			newViol++
			exit = 1
			continue
		}
		vs := bySig[sig]
		sort.Slice(vs, func(i, j int) bool { return len(vs[i].Tape) < len(vs[j].Tape) })
		v := vs[0]
		if k := matchKnown(ks, v.Prop, sig); k != nil {
			if !knownSeen[k.Signature] {
				knownSeen[k.Signature] = true
				fmt.Printf("KNOWN-FINDING: property=%s %s (%s) [%d runs]\n", v.Prop, k.What, sig, sigCount[sig])
			}
			continue
		}
		// minimise, then confirm in a fresh process
		min := v
		if v.Engine != "crash" {
			min = minimise(c, v) // (a crash is replayed in a child process only, never in the driver)
		}
		path := filepath.Join(*verif, "replays", fmt.Sprintf("%s-%d-%d.json", v.Prop, seed, newViol))
		b, _ := json.MarshalIndent(min, "", "  ")
		os.WriteFile(path, b, 0o644)
		rc := exec.Command(self, "replay", "-file", path, "-quiet")
		rc.Stderr = os.Stderr
		out, _ := rc.Output()
		if rc.ProcessState == nil || rc.ProcessState.ExitCode() != 1 {
			// try the unminimised one
			b, _ = json.MarshalIndent(v, "", "  ")
			os.WriteFile(path, b, 0o644)
			// (a race report also depends on what the detector still remembers of the first
			// access: the unminimised recording gets three attempts)
			for attempt := 0; attempt < 5; attempt++ {
				rc = exec.Command(self, "replay", "-file", path, "-quiet")
				out, _ = rc.Output()
				if rc.ProcessState != nil && rc.ProcessState.ExitCode() == 1 {
					break
				}
			}
			if (rc.ProcessState == nil || rc.ProcessState.ExitCode() != 1) && strings.Contains(sig, "/race/") && v.Actual["race_detector"] != nil {
				// a report of the race detector is a witnessed pair of unsynchronised accesses (the
				// detector has no false positives, and the scheduler hides only its own hand-offs
				// from it). Whether the same schedule shows it again also depends on detector
				// internals (which earlier accesses it still remembers, sync.Pool traffic treated
				// as synchronisation), so the recorded report stands even if the replay stayed quiet.
				fmt.Printf("note: the race report of %s did not show again in 5 replays of its schedule; the recorded report is kept in the replay file\n", sig)
			} else if rc.ProcessState == nil || rc.ProcessState.ExitCode() != 1 {
				fmt.Printf("INFRA: violation %s did not reproduce from its tape in a fresh process (%s)\n%s\n", sig, path, out)
				if exit == 0 {
					exit = 2
				}
				continue
			}
			min = v
		}
		newViol++
		exit = 1
		explained = append(explained, min.Signature)
		fmt.Printf("violation signature=%s\n  derived=%v\n  expected=%v\n  actual=%v\n", min.Signature, min.Derived, min.Expected, min.Actual)
		fmt.Printf("VIOLATION property=%s replay=%s\n", min.Prop, path)
	}

	cov, assumptions := c.Evidence(total, *tier)
	cov["runs"] = runsDone
	cov["runs_per_hour"] = int(float64(runsDone) / time.Since(start).Seconds() * 3600)
	cov["known_finding_signatures_seen"] = len(knownSeen)
	ev := map[string]interface{}{
		"property_id": c.ID(),
		"tier":        *tier,
		"seed":        int64(seed),
		"level":       c.Level(),
		"coverage":    cov,
		"assumptions": assumptions,
		"wall_s":      time.Since(start).Seconds(),
		"violations":  newViol,
	}
	b, _ := json.MarshalIndent(ev, "", " ")
	os.MkdirAll(filepath.Join(*verif, "evidence"), 0o755)
	if err := os.WriteFile(filepath.Join(*verif, "evidence", c.ID()+".json"), b, 0o644); err != nil {
		fmt.Println("INFRA: cannot write evidence:", err)
		return 2
	}
	fmt.Printf("done property=%s runs=%d violations=%d known=%d wall=%.1fs\n", c.ID(), runsDone, newViol, len(knownSeen), time.Since(start).Seconds())
	if exit == 0 && infraCount > 0 {
		fmt.Printf("INFRA: %d runs were inconclusive (watchdog, deadlock, non-determinism or harness trouble); not a verdict\n", infraCount)
		return 2
	}
	return exit
}

// minimise reduces the tape while the same signature is observed. A check may bring
// its own minimiser (schedules are reduced by delta-debugging the switch list).
func minimise(c Check, v Viol) Viol {
	if m, ok := c.(interface{ Minimise(v Viol) Viol }); ok {
		return m.Minimise(v)
	}
	best := v
	keep := func(rec []uint32) bool {
		st := c.NewStats()
		vs := c.Run(v.Seed, v.Run, rec, st, nil)
		for _, x := range vs {
			if x.Signature == v.Signature {
				x.Tier = v.Tier
				best = x
				return true
			}
		}
		return false
	}
	if !keep(v.Tape) {
		return v
	}
	rec := tape.Shrink(v.Tape, keep, 400)
	keep(rec)
	return best
}

// crashesAlone runs one run index in a process of its own and reports whether that
// process dies (neither statistics nor a clean exit).
func crashesAlone(self, prop, tier string, seed uint64, run int) bool {
	ctx, cancel := context.WithTimeout(context.Background(), 10*time.Minute)
	defer cancel()
	cmd := exec.CommandContext(ctx, self, "work", "-prop", prop, "-tier", tier, "-seed", fmt.Sprint(seed), "-shard", fmt.Sprint(run), "-nshard", "1000000000")
	out, err := cmd.Output()
	if ee, ok := err.(*exec.ExitError); ok && ee.ExitCode() == 3 {
		return false // the worker's own watchdog ended it: slow or stuck, not dead - inconclusive
	}
	return err != nil && ctx.Err() == nil && !strings.Contains(string(out), `"type":"stats"`)
}

func crashViol(prop, tier string, seed uint64, run int) Viol {
	return Viol{Prop: prop, Tier: tier, Seed: seed, Run: uint64(run), Engine: "crash",
		Signature: prop + "/host-crash",
		Derived:   map[string]interface{}{"what": "the generated workload of this run takes the interpreter's process down (a fatal runtime error, not a Pangaea error and not a recoverable panic); replaying runs the same run index in a child process"},
		Expected:  map[string]interface{}{"outcome": "a value or a Pangaea error"},
		Actual:    map[string]interface{}{"outcome": "the process died"}}
}

func replay(args []string) int {
	fs := flag.NewFlagSet("replay", flag.ExitOnError)
	file := fs.String("file", "", "")
	quiet := fs.Bool("quiet", false, "")
	fs.Parse(args)
	b, err := os.ReadFile(*file)
	if err != nil {
		fmt.Println("INFRA:", err)
		return 2
	}
	var v Viol
	if err := json.Unmarshal(b, &v); err != nil {
		fmt.Println("INFRA:", err)
		return 2
	}
	mk, ok := registry[v.Prop]
	if !ok {
		fmt.Println("INFRA: unknown property", v.Prop)
		return 2
	}
	c := mk()
	tier := v.Tier
	if tier == "" {
		tier = "quick"
	}
	if v.Engine == "crash" {
		self, _ := os.Executable()
		if crashesAlone(self, v.Prop, tier, v.Seed, int(v.Run)) {
			if !*quiet {
				fmt.Printf("reproduced signature=%s: the process running run %d died again\n", v.Signature, v.Run)
			}
			fmt.Printf("VIOLATION property=%s replay=%s\n", v.Prop, *file)
			return 1
		}
		fmt.Printf("not reproduced: run %d ended normally\n", v.Run)
		return 0
	}
	c.Init(tier)
	st := c.NewStats()
	vs := c.Run(v.Seed, v.Run, v.Tape, st, &v)
	for _, x := range vs {
		if x.Signature == v.Signature {
			if !*quiet {
				fmt.Printf("reproduced signature=%s\n  derived=%v\n  expected=%v\n  actual=%v\n", x.Signature, x.Derived, x.Expected, x.Actual)
			}
			fmt.Printf("VIOLATION property=%s replay=%s\n", v.Prop, *file)
			return 1
		}
	}
	fmt.Printf("not reproduced: signature %s not observed (%d other violations)\n", v.Signature, len(vs))
	return 0
}

// isExplained reports whether sig's role path contains the role path of an
// already reported (minimised) signature of the same property/phase/kind.
func isExplained(done []string, sig string) bool {
	sp := strings.Split(sig, "/")
	if len(sp) < 4 {
		return false
	}
	for _, d := range done {
		if d == sig {
			return true
		}
		dp := strings.Split(d, "/")
		if len(dp) < 4 || dp[0] != sp[0] || dp[1] != sp[1] {
			continue
		}
		dpath := corePath(strings.Join(dp[2:len(dp)-1], "/"))
		spath := corePath(strings.Join(sp[2:len(sp)-1], "/"))
		if dpath != "" && strings.Contains(">"+spath+">", ">"+dpath+">") {
			return true
		}
	}
	return false
}

var stmtRoles = map[string]bool{"stmt/expr": true, "stmt/last": true, "assign/rhs": true, "defer/expr": true,
	"defer/guard": true, "return/value": true, "return/guard": true, "raise/guard": true, "raise/value": true}

// corePath drops statement-level roles from a role path.
func corePath(p string) string {
	var out []string
	for _, e := range strings.Split(p, ">") {
		if !stmtRoles[e] {
			out = append(out, e)
		}
	}
	return strings.Join(out, ">")
}
