// Package tape is the single source of choices: every generated program, fault
// plan, schedule decision, map-order permutation and reader chunk size is drawn
// from one []uint32 filled by SplitMix64 from (seed, run index).  A recorded tape
// replays a run exactly; reducing a tape (delete / zero / halve) yields simpler
// choices because all generators map smaller draws to simpler alternatives.
package tape

// Tape is a replayable choice source.
type Tape struct {
	Rec  []uint32 // everything drawn so far (the replay record)
	pre  []uint32 // pre-recorded values (replay / shrinking)
	pos  int
	s    uint64
	Over bool // true when a pre-recorded tape ran out (further draws are 0)
	Free bool // replaying: after pre is exhausted, continue with PRNG instead of zeros
}

// New returns a tape seeded from (seed, run).
func New(seed uint64, run uint64) *Tape {
	t := &Tape{s: seed*0x9E3779B97F4A7C15 ^ (run+1)*0xBF58476D1CE4E5B9}
	// warm up
	t.next()
	t.next()
	return t
}

// Replay returns a tape that yields the recorded values and then zeros.
func Replay(rec []uint32) *Tape {
	return &Tape{pre: append([]uint32(nil), rec...), s: 1}
}

func (t *Tape) next() uint64 {
	t.s += 0x9E3779B97F4A7C15
	z := t.s
	z = (z ^ (z >> 30)) * 0xBF58476D1CE4E5B9
	z = (z ^ (z >> 27)) * 0x94D049BB133111EB
	return z ^ (z >> 31)
}

// U32 draws one raw value.
func (t *Tape) U32() uint32 {
	var v uint32
	if t.pre != nil {
		if t.pos < len(t.pre) {
			v = t.pre[t.pos]
			t.pos++
		} else if t.Free {
			v = uint32(t.next() >> 32)
		} else {
			t.Over = true
			v = 0
		}
	} else {
		v = uint32(t.next() >> 32)
	}
	t.Rec = append(t.Rec, v)
	return v
}

// Intn draws a value in [0, n). n <= 0 yields 0 without drawing.
func (t *Tape) Intn(n int) int {
	if n <= 1 {
		return 0
	}
	return int(t.U32() % uint32(n))
}

// Bool draws a boolean that is true with probability num/den (false for a 0 draw).
func (t *Tape) Chance(num, den int) bool {
	if num <= 0 {
		return false
	}
	v := t.U32() % uint32(den)
	// small draws map to "false" (the simple alternative)
	return int(v) >= den-num
}

// Pick draws an index by weights; index 0 should be the simplest alternative.
func (t *Tape) Pick(weights ...int) int {
	sum := 0
	for _, w := range weights {
		sum += w
	}
	if sum <= 0 {
		return 0
	}
	v := int(t.U32() % uint32(sum))
	for i, w := range weights {
		if v < w {
			return i
		}
		v -= w
	}
	return len(weights) - 1
}

// Perm draws a permutation of n elements (identity for an all-zero tape).
func (t *Tape) Perm(n int) []int {
	p := make([]int, n)
	for i := range p {
		p[i] = i
	}
	for i := 0; i < n-1; i++ {
		j := i + t.Intn(n-i)
		p[i], p[j] = p[j], p[i]
	}
	return p
}

// Shrink reduces rec while keep(candidate) stays true. budget bounds the number of
// calls to keep. Strategies: delete spans, zero entries, halve entries.
func Shrink(rec []uint32, keep func([]uint32) bool, budget int) []uint32 {
	cur := append([]uint32(nil), rec...)
	try := func(c []uint32) bool {
		if budget <= 0 {
			return false
		}
		budget--
		if keep(c) {
			cur = c
			return true
		}
		return false
	}
	changed := true
	for changed && budget > 0 {
		changed = false
		// truncate
		for n := len(cur) / 2; n >= 1 && budget > 0; n /= 2 {
			for len(cur) > n && try(append([]uint32(nil), cur[:len(cur)-n]...)) {
				changed = true
			}
		}
		// delete spans
		for span := 8; span >= 1 && budget > 0; span /= 2 {
			for i := 0; i+span <= len(cur) && budget > 0; {
				c := append(append([]uint32(nil), cur[:i]...), cur[i+span:]...)
				if try(c) {
					changed = true
				} else {
					i++
				}
			}
		}
		// zero / halve
		for i := 0; i < len(cur) && budget > 0; i++ {
			if cur[i] == 0 {
				continue
			}
			c := append([]uint32(nil), cur...)
			c[i] = 0
			if try(c) {
				changed = true
				continue
			}
			for v := cur[i] / 2; v > 0 && budget > 0; v /= 2 {
				c := append([]uint32(nil), cur...)
				c[i] = v
				if try(c) {
					changed = true
					break
				}
			}
			if cur[i] > 0 && budget > 0 {
				c := append([]uint32(nil), cur...)
				c[i] = cur[i] - 1
				if try(c) {
					changed = true
				}
			}
		}
	}
	return cur
}
