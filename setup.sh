#!/bin/bash
# setup.sh: offline build of repo-independent tools and a warm-up of the Go build cache.
set -u
VERIF_DIR="$(cd "$(dirname "$0")" && pwd)"
export GOFLAGS=-mod=mod GOPROXY=off GOSUMDB=off GOTOOLCHAIN=local
mkdir -p "$VERIF_DIR/bin" "$VERIF_DIR/evidence" "$VERIF_DIR/replays"
if [ -d "$VERIF_DIR/inst" ]; then
  ( cd "$VERIF_DIR/inst" && go build -trimpath -o "$VERIF_DIR/bin/inst" . ) || exit 1
fi
SCR=$(mktemp -d /var/tmp/verif-setup-XXXXXX) || exit 1
trap 'rm -rf "$SCR"' EXIT
"$VERIF_DIR/build.sh" "$SCR" plain || exit 1
exit 0
